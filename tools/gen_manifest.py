#!/usr/bin/env python3
"""Generates MANIFEST.json from the table below (kept in one place so that it stays valid and current)."""
import json
import os

VERIF = os.path.dirname(os.path.dirname(os.path.abspath(__file__)))
BASELINE = ("cd /repo && /venv/bin/python -m pytest -ra -q -p no:cacheprovider --timeout=900 "
            "--continue-on-collection-errors")

T = "contract-based deductive verification: "
TRUST = ("pyvc's encoding of Python semantics and the numpy/scipy models of pyvc/lib.py, pyvc/libreal.py are trusted "
         "(conformance-tested); A-NAN (no NaN/inf values); user callables deterministic; z3/cvc5/sympy as decision "
         "procedures. ")


def E(category, text, ref, note, technique):
    return dict(category=category, text=text, design_ref=ref, note=TRUST + note, technique=technique)


CHECKS = {
    "C01": E("exploration",
             "NOT a proof: global convergence of a floating-point iteration is outside what per-function contracts can "
             "decide (DESIGN 9/C01). Bounded run-time contract: the property's postcondition (recomputed projected "
             "gradient at the tolerance / objective-resolution level) evaluated on generated strictly convex box problems "
             "of the property's families; plus one PROVED necessary condition on the real main loop (abnormal "
             "termination is only reported after a line search failed with the memory already reset); thorough tier also "
             "reports the Cauchy/subspace obligations as supporting evidence.",
             "DESIGN.md 9 C01", "bounded stand-in only; tolerance stated in the evidence.",
             "bounded run-time contract checking (stand-in; deductive family not applicable to the convergence claim)"),
    "C02": E("proof",
             "Every site at which a point reaches the user's objective/gradient, the callback or the result carries the "
             "obligation lb <= point <= ub; discharged for all inputs and iterations from np.clip's axioms (clip2bounds at "
             "the start, clip(x0 + a*d) for every trial point and for the new iterate), the loop invariant and callee "
             "contracts; site completeness because user functions are only reachable through ScalarFunction.",
             "DESIGN.md 9 C02", "approx_derivative keeps its stencil inside the bounds (assumed contract); Cauchy/subspace "
             "points inside the box proved at fixed shapes only.",
             T + "call-site obligations + loop invariant, UF domain, z3"),
    "C03": E("proof",
             "Contract of the real line_search (None or strictly lower objective at the evaluated trial point) proved with "
             "a loop invariant for every maxls/evaluation budget and every DCSRCH behaviour; main's invariant and exit "
             "clauses (fun <= previous accepted value <= start value at callback sites and returns) proved from it.",
             "DESIGN.md 9 C03", "DCSRCH._iterate assumed contract; premise update_fun_def is None.",
             T + "function contract + loop invariants, UF domain, z3"),
    "C04": E("proof",
             "Postconditions of minimize_lbfgsb taken from the statement (documented message, each message implies its "
             "fact, success False iff abnormal, nit/nfev budgets, stop-criterion callables invoked once) proved at every "
             "return from a loop invariant, for all iteration counts and all 288 combinations of checkpoint / ftarget "
             "kind / gtol kind / gradient mode / scaler / update function / callback.",
             "DESIGN.md 9 C04", "callee contracts (line_search budget proved in unit LS); NaN values are outside the proofs (A-NAN) "
             "and only seen by the bounded stand-in.",
             T + "ensures + loop invariant on the real main loop, UF domain, z3"),
    "C05": E("proof",
             "Bit-for-bit coherence (equality of terms in the UF domain) of (x, fun, jac) and counter/ghost-call equality "
             "as loop invariant, at every callback site and return, including restarts (checkpoint counters + calls "
             "since); ScalarFunction's counting invariant (unit SF).",
             "DESIGN.md 9 C05", "restart premise: well-formed checkpoint, no scaler on restart.",
             T + "loop invariant + class invariant, UF provenance, z3"),
    "C06": E("other",
             "Restore contract of initialize_X_and_G proved in real arithmetic at fixed shapes (component-wise: n=1 "
             "complete in n; pairs 1..4 x maxcor 1..4): most recent points, chronological order, checkpoint untouched; "
             "restart provenance (counters, f0, grad, zero-iteration restart returns the checkpoint's pairs) proved in "
             "the UF domain; loop invariant mats_current (the matrices in use are the ones built from the stored history); "
             "matrices rebuilt from the deques (unit BFGS). 'Same continuation' = determinism lemma (hand) + bounded "
             "native comparison (next iterate and counters).",
             "DESIGN.md 9 C06", "A-REAL for the restore contract; lemma C06::same_continuation by hand.",
             T + "fixed-shape real-arithmetic VCs (z3) + UF provenance; bounded stand-in for the end-to-end clause"),
    "C07": E("proof",
             "Call-site clauses at the callback (every state field equals the current value, nit counts completed "
             "iterations, x/xk are copies, pairs are diff of the current deques) and ownership/frame obligations (nothing "
             "handed to the callback is written later) proved for every iteration by the invariant cut.",
             "DESIGN.md 9 C07", "continuation-after-restart clause relies on C06.",
             T + "call-site contracts + ownership/frame obligations, z3"),
    "C08": E("other",
             "Postconditions of the real get_cauchy_point (breakpoints, ordered positive breakpoint list, feasibility, "
             "exact pinning, first local minimiser on the projected path, model decrease, auxiliary vector, arguments "
             "untouched) discharged by z3 NRA for ALL real inputs and every bound/sign pattern at n <= 2 with empty "
             "memory (a full n = 3 run does not fit the thorough budget; thorough adds the unbounded n = 3 pattern): "
             "proved-at-shape, bounded in shape. With stored pairs and larger n: bounded native stand-in.",
             "DESIGN.md 9 C08", "A-REAL; A-SAFEGUARD; shapes stated in the evidence; memory m>=1 bounded only.",
             T + "fixed-shape symbolic execution of the real kernel, unrolled loops with unwinding obligations, z3 NRA"),
    "C09": E("other",
             "Postconditions of the real get_freev + subspace_minimization (free set, active variables fixed, box-truncated "
             "exact Newton step, model non-increase, descent) discharged by z3 NRA for all real inputs and every "
             "free/active partition at n <= 2 (quick) / 3 (thorough) with empty memory: proved-at-shape. With stored "
             "pairs: bounded native stand-in against a dense solve.",
             "DESIGN.md 9 C09", "A-REAL; sparse selection matrices modelled dense; memory m>=1 bounded only.",
             T + "fixed-shape symbolic execution of the real kernel, z3 NRA"),
    "C10": E("other",
             "Structural half proved for all histories and memory sizes (update_X_and_G / update_lbfgs_matrices contracts, "
             "quantified deque invariant in main's loop); numeric half proved-at-shape: the real update_lbfgs_matrices / "
             "form_invMfactors / bmv at (n, pairs, maxcor) of the grid for all real inputs; Byrd-Nocedal-Schnabel Thm 2.3 "
             "checked in the fraction field at small shapes and cited beyond.",
             "DESIGN.md 9 C10", "A-REAL in the numeric half; cited lemma beyond the grid; cholesky/solve_triangular models.",
             T + "UF contracts with quantified invariants (z3) + fixed-shape real VCs (z3 NRA) + fraction-field identities (sympy)"),
    "C11": E("proof",
             "Contract of the real line_search: evaluation points are clip(x0 + a*d) hence inside the box, at most max_iter "
             "objective evaluations, result None or 0 < step <= max feasible step with strictly lower objective; proved "
             "with a loop invariant for every DCSRCH behaviour and budget; max_allowed_steplength feasible and maximal "
             "(real arithmetic, fixed shapes).",
             "DESIGN.md 9 C11", "DCSRCH._iterate assumed contract; step-length kernel proved at shape (component-wise).",
             T + "function contract + loop invariant, UF domain (z3); kernel at fixed shape (z3 NRA)"),
    "C12": E("other",
             "Proved: the reference constants on the signature and their unmodified flow into DCSRCH and the curvature "
             "test, the first-step rule, theta = y.y/s.y. Bounded: evaluation-point sequences against SciPy's compiled "
             "L-BFGS-B (agreement with a Fortran binary is not an obligation a solver can discharge).",
             "DESIGN.md 9 C12", "trajectory clause bounded only.",
             T + "dataflow/constant obligations (z3/structural) + bounded native comparison with SciPy"),
    "C13": E("other",
             "Proved: filter contract of make_X_and_G_respect_strong_wolfe (loop invariant, symbolic memory size); in main "
             "with an arbitrary update function the rewritten history is filtered before use/return (deque invariant and "
             "hess_inv clauses hold for the rewritten G at every exit and callback site), the filter is the identity on a "
             "valid history, and the matrices in use are rebuilt from the rewritten history (invariant mats_current). "
             "Bounded: identity-update and restart-equivalence clauses (native).",
             "DESIGN.md 9 C13", "update_fun_def returns a deque of equal length; identity/restart clauses bounded.",
             T + "function contract with for-loop invariant + main loop invariant, UF domain, z3"),
    "C14": E("proof",
             "Frame: every in-place write on every path of minimize_lbfgsb (and of the kernels in their units) targets "
             "memory allocated by the call - obligations of the heap/ownership model; flow analysis over the whole "
             "package: no mutable global state, mutable defaults untouched (dead minpack2 branch), no nondeterminism "
             "source, iprint/logger never flow into a non-logging sink.",
             "DESIGN.md 9 C14", "interleavings are not enumerated (ownership argument); numpy/BLAS thread-safety assumed.",
             T + "ownership/frame obligations of the symbolic heap + syntactic information-flow analysis"),
    "C15": E("proof",
             "Class invariant of the real ScalarFunction (cache flags imply cached values are F/grad at the cached point, "
             "counters equal user calls, cache point owned) established by prepare_scalar_function/__init__ and preserved "
             "by fun/grad/fun_and_grad from a generic state, plus method postconditions from the property text; covers "
             "histories of any length, any points, scaling changes, all five gradient modes.",
             "DESIGN.md 9 C15", "assumed contract of scipy approx_derivative; a bounded native history enumeration runs "
             "alongside as replay oracle.",
             T + "class invariant + method contracts, VCs from the AST, z3"),
    "C16": E("other",
             "Proved: the precondition of approx_derivative (feasible base point, else ValueError) holds at its only call "
             "site on every path (requires of ScalarFunction.grad/fun_and_grad at each call site, from np.clip's axioms); "
             "mode dispatch and stencil counting (unit SF). Bounded: accuracy against exact-gradient solutions.",
             "DESIGN.md 9 C16", "assumed contract of approx_derivative.",
             T + "call-site preconditions (z3) + class invariant; bounded stand-in for the accuracy clause"),
    "C17": E("proof",
             "Obligations on the real code: scaler invoked exactly once with (start point, unscaled gradient, bounds); "
             "scaling factor fixed afterwards; every consumed value is F(p)*s / grad(p)*s; target tested on fun/s. The "
             "equivalence with the run on (s*f, s*grad f) then follows from commutativity of IEEE multiplication and "
             "determinism (hand lemma, checked natively).",
             "DESIGN.md 9 C17", "lemma C17::equivalence by hand; premise: no checkpoint with scaler, s > 0.",
             T + "ensures + invariant conjuncts, UF provenance, z3"),
    "C18": E("proof",
             "At every construction site of LbfgsInvHessProduct: sk/yk are diff of the current deques, rows <= maxcor, "
             "every pair has s.y > 0 (quantified deque invariant + IEEE sign axioms); every stored gradient is the scaled "
             "gradient at the stored point; history arrays never written in place. extract_hess_inv_diag: bounded.",
             "DESIGN.md 9 C18", "restored elements rely on C06; chronological order only structurally; two-loop SPD lemma.",
             T + "construction-site contracts + quantified deque invariant, z3"),
    "C19": E("proof",
             "Closed forms of f and f_grad obtained by executing the real bodies on sympy symbols; diff(f, x_i) - grad_i == 0 "
             "for every i and n = 1..12, shape and scalar-ness; all real points away from the singular sets.",
             "DESIGN.md 9 C19", "floats as reals; sympy's rewriting trusted when it answers 0.",
             T + "CAS identity per component from code-derived closed forms (sympy)"),
    "C20": E("proof",
             "Every user-callable call site has an exceptional outcome with a symbolic exception class; on every path a "
             "normal return never follows a user exception and an exceptional exit delivers that same exception object; "
             "all call indices covered by the invariant cut; no handler encloses a user call (flow unit).",
             "DESIGN.md 9 C20", "library frames (approx_derivative, DCSRCH) transparent to exceptions.",
             T + "exceptional-path symbolic execution with symbolic exception classes, structural obligations"),
}

NOT_YET = {}

ALL = ["C%02d" % i for i in range(1, 21)]


def main():
    checks = []
    for pid in ALL:
        if pid not in CHECKS:
            continue
        c = CHECKS[pid]
        c = dict(c, note=c["note"])
        checks.append({
            "property_id": pid,
            "quick_cmd": f"python3-vt checks/run.py {pid} --tier quick",
            "thorough_cmd": f"python3-vt checks/run.py {pid} --tier thorough",
            "evidence_file": f"/verif/evidence/{pid}.json",
            "replay_cmd_template": f"python3-vt checks/run.py {pid} --replay {{path}}",
            "engine": "pyvc",
            "level_claimed": {"category": c["category"], "text": c["text"], "design_ref": c["design_ref"]},
            "level_note": c["note"],
            "technique": c["technique"],
        })
    na = []
    for pid in ALL:
        if pid not in CHECKS:
            na.append({"property_id": pid, "reason": NOT_YET.get(
                pid, "check not built yet in this session; contracts planned in DESIGN.md §9 (will be claimed once "
                     "its obligations are generated and discharged)")})
    m = {
        "version": 1,
        "setup_cmd": "python3-vt checks/run.py selfcheck",
        "hooks": {"guard": "LBFGSB_VERIF", "enable": "none needed: contracts are sidecar files under /verif/contracts; "
                  "no source hook exists in /repo", "baseline_off_cmd": BASELINE, "source_commits": [],
                  "add_only": True},
        "engines": [{"name": "pyvc", "path": "/verif/pyvc",
                     "serves_properties": sorted(CHECKS),
                     "kind_free_text": "ast->verification-condition generator / symbolic executor for the Python "
                                       "subset of lbfgsb with sidecar contracts; back ends z3, cvc5, sympy"}],
        "checks": checks,
        "not_applicable": na,
        "notes": "Technique family: contract-based deductive verification of the real code. See DESIGN.md.",
    }
    json.dump(m, open(os.path.join(VERIF, "MANIFEST.json"), "w"), indent=1)
    print("MANIFEST.json:", len(checks), "checks,", len(na), "not claimed")


if __name__ == "__main__":
    main()
