#!/usr/bin/env python3
"""Generates MANIFEST.json from the table below (kept in one place so that it stays valid and current)."""
import json
import os

VERIF = os.path.dirname(os.path.dirname(os.path.abspath(__file__)))
BASELINE = ("cd /repo && /venv/bin/python -m pytest -ra -q -p no:cacheprovider --timeout=900 "
            "--continue-on-collection-errors")

CHECKS = {
    "C15": dict(
        category="proof",
        text="Class invariant of the real ScalarFunction (cache flags imply cached values are F/grad at the cached "
             "point, counters equal user calls, cache point owned) established by prepare_scalar_function/__init__ and "
             "preserved by fun/grad/fun_and_grad from a generic state, plus method postconditions taken from the "
             "property text; every obligation generated from /repo's source by pyvc and discharged by z3. Covers "
             "histories of any length, any points, scaling changes, all five gradient modes - which no finite test "
             "can.",
        design_ref="DESIGN.md §9 C15",
        note="UF domain: float arithmetic uninterpreted, comparisons as reals; A-NAN; assumed contract of scipy "
             "approx_derivative; pyvc's encoding of Python semantics and the numpy models in pyvc/lib.py are trusted. "
             "A bounded native history enumeration runs alongside as replay oracle (labelled bounded).",
        technique="contract-based deductive verification: class invariant + method contracts, VCs from the AST, z3"),
}

NOT_YET = {}

ALL = ["C%02d" % i for i in range(1, 21)]


def main():
    checks = []
    for pid in ALL:
        if pid not in CHECKS:
            continue
        c = CHECKS[pid]
        checks.append({
            "property_id": pid,
            "quick_cmd": f"python3-vt checks/run.py {pid} --tier quick",
            "thorough_cmd": f"python3-vt checks/run.py {pid} --tier thorough",
            "evidence_file": f"/verif/evidence/{pid}.json",
            "replay_cmd_template": f"python3-vt checks/run.py {pid} --replay {{path}}",
            "engine": "pyvc",
            "level_claimed": {"category": c["category"], "text": c["text"], "design_ref": c["design_ref"]},
            "level_note": c["note"],
            "technique": c["technique"],
        })
    na = []
    for pid in ALL:
        if pid not in CHECKS:
            na.append({"property_id": pid, "reason": NOT_YET.get(
                pid, "check not built yet in this session; contracts planned in DESIGN.md §9 (will be claimed once "
                     "its obligations are generated and discharged)")})
    m = {
        "version": 1,
        "setup_cmd": "python3-vt checks/run.py selfcheck",
        "hooks": {"guard": "LBFGSB_VERIF", "enable": "none needed: contracts are sidecar files under /verif/contracts; "
                  "no source hook exists in /repo", "baseline_off_cmd": BASELINE, "source_commits": [],
                  "add_only": True},
        "engines": [{"name": "pyvc", "path": "/verif/pyvc",
                     "serves_properties": sorted(CHECKS),
                     "kind_free_text": "ast->verification-condition generator / symbolic executor for the Python "
                                       "subset of lbfgsb with sidecar contracts; back ends z3, cvc5, sympy"}],
        "checks": checks,
        "not_applicable": na,
        "notes": "Technique family: contract-based deductive verification of the real code. See DESIGN.md.",
    }
    json.dump(m, open(os.path.join(VERIF, "MANIFEST.json"), "w"), indent=1)
    print("MANIFEST.json:", len(checks), "checks,", len(na), "not claimed")


if __name__ == "__main__":
    main()
