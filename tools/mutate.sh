#!/bin/bash
# usage: mutate.sh <file-under-lbfgsb> <old-text> <new-text> <command...>
# applies a literal single replacement to a scratch copy of /repo and runs <command> with LBFGSB_REPO pointing to it.
T=$(mktemp -d /tmp/mut.XXXX); cp -r /repo/lbfgsb $T/; cp -r /repo/tests $T/ 2>/dev/null
python3 - "$T/lbfgsb/$1" "$2" "$3" <<'PY' || { rm -rf $T; exit 9; }
import sys
p, old, new = sys.argv[1:4]
s = open(p).read()
if old not in s:
    print("PATTERN NOT FOUND"); sys.exit(1)
open(p, 'w').write(s.replace(old, new, 1))
PY
shift 3
( cd /verif && LBFGSB_REPO=$T PYTHONPATH=/verif "$@" ); rc=$?
rm -rf $T; exit $rc
