#!/bin/bash
# usage: try_seeded.sh <seeded-dir-name> <PID> [<PID>...]   - applies the patch to a scratch copy of /repo (never /repo
# itself), confirms the demo fails there, runs the given checks against the copy, removes the copy.
set -u
S=/verif/seeded/$1; shift
T=$(mktemp -d /tmp/seedtest.XXXX)
git -C /repo archive HEAD | tar -x -C $T
( cd $T && git init -q . && git apply --whitespace=nowarn $S/patch.diff ) || { echo "PATCH DOES NOT APPLY"; rm -rf $T; exit 9; }
echo "== demo on patched copy:"; ( cd $T && PYTHONPATH=$T /venv/bin/python -W ignore $S/demo.py >/dev/null 2>&1; echo "demo exit=$?" )
for P in "$@"; do
  echo "== check $P on patched copy:"
  ( cd /verif && LBFGSB_REPO=$T python3-vt checks/run.py $P --tier quick 2>&1 | grep -v conda | cut -c1-220 | head -${LINES_MAX:-6}; echo "exit=${PIPESTATUS[0]}" )
done
rm -rf $T
