#!/usr/bin/env python3
"""Confirm and evaluate the seeded property-breaking changes under /verif/seeded/<id>/ (patch.diff, demo.py, notes.md).

For each: apply the patch to a scratch copy of /repo's HEAD (never /repo itself), confirm that the repository's test
suite still passes and that the demonstration fails with the change and passes without it, run the registered quick
check(s) of the targeted property against the copy (LBFGSB_REPO), and record everything in meta.json.
usage: run_seeded.py [name-substring ...] [--props C04,C05] [--no-tests]
"""
import json
import os
import shutil
import subprocess
import sys
import tempfile
import time
import functools
print = functools.partial(print, flush=True)

SEEDED = "/verif/seeded"
NEEDS = {
    "C15-alias-update-x": "caller mutates the float64 array it passed after the call, then asks again with the same array",
    "C15-cached-scaled-grad": "scaling factor changed between two gradient requests at the same point",
    "C15-fd-stale-f0": "finite-difference mode, grad() requested at a point where fun() was not (two cooperating edits)",
    "C05-empty-history-checkpoint": "restart from a checkpoint that has evaluations but no correction pair (maxiter=0 run, "
                                    "abnormal line-search stop)",
    "C05-fd-evals-missing-in-callback-state": "finite-difference gradient mode + a callback reading state.nfev (two sites)",
    "C05-reuse-linesearch-eval": "a line search whose last trial is worse than an earlier one (small maxls / maxfun runs out)",
    "C10-advance-reference-on-reject": "a rejected candidate followed by an accepted one with >= 1 stored pair",
    "C10-evict-before-curvature-test": "memory exactly full and the candidate rejected",
    "C10-memoryless-fast-path": "maxcor == 1 and theta != 1",
    "C04-ls-budget": "small maxfun with a line search needing >= 3 trials at the end of the budget",
    "C04-late-gtol-callable": "callable gtol + ftarget already met at x0 (or by the checkpoint)",
    "C04-truncated-ls-relabel": "line search fails before using its maxfun-truncated budget",
    "C07-inplace-x-shared-snapshot": "state kept by the callback and examined after one more iteration (two edits)",
    "C07-cb-hessinv-from-mats": "callback state while no curvature pair has been accepted yet / after a reboot",
    "C07-linesearch-slope-from-sf": "restart from a kept state: cache empty, an extra gradient evaluation is counted",
    "C14-ckpt-jac-inplace-scale": "checkpoint= together with a gradient scaler returning s != 1",
    "C14-shared-dcsrch-workspace": "two optimisations with equal line-search tolerances interleaved inside a line search",
    "C14-wolfe-filter-needs-logger": "update_fun_def rewriting gradients so that a pair violates curvature, with logger=None",
    "C20-fd-grad-error-context": "finite-difference mode, objective raising ValueError/RuntimeError at a stencil evaluation",
    "C20-linesearch-trial-fallback": "objective raising on the 2nd+ trial of a line search whose earlier trial decreased f",
    "C20-matrices-pool-reuse": "fault after the first BFGS update, exception caught, then a second call with the same n",
    "C03-ls-deferred-decrease-check": "line search out of budget after >= 2 trials, all above the start value",
    "C03-iterate-from-sf-memo": "line search gives up after an improving trial followed by a worse last trial",
    "C03-snap-onto-bounds-isclose": "large-magnitude finite bound with the minimiser within 1e-5*|bound| of it",
    "C06-maxcor-trim-order": "restart with maxcor smaller than the number of stored pairs",
    "C06-lnsrch-reboot-keeps-pair": "line-search failure mid-run and a split exactly at that iteration",
    "C06-restore-inplace-cumsum": "the same result object used as checkpoint twice",
    "C13-filter-anchor-on-neighbour": "a rewrite where a middle point is dropped: (P2,P3) invalid, (P1,P2) valid, (P1,P3) invalid",
    "C13-roll-full-memory-matrices": "objective switch at iteration k > maxcor with a rewrite that keeps all pairs",
    "C13-skip-filter-when-same-arrays": "update function rewriting the stored gradients in place and returning the same deque",
    "C17-ftarget-hoisted-unscale": "gradient scaler with s != 1 together with an ftarget that is the stop that fires",
    "C17-unit-scale-grad-fastpath": "jac callable that writes into and returns the same reused buffer on every call",
    "C17-scaler-skipped-stationary-start": "scaler + start whose unscaled projected gradient is already within gtol",
    "C02-accepted-step-unprojected": "step truncated at a non-dyadic bound reached from a distance (one-ulp rounding)",
    "C02-fd-fixed-variable-free-stencil": "finite-difference gradient mode together with a fixed variable (lb == ub)",
    "C02-report-in-x0-dtype": "float32 x0 with bounds not representable in float32 and a variable finishing on such a bound",
    "C18-wolfe-filter-vectorized": "update function rewriting gradients so that a mid-memory pair fails and the spanning pair has s.y <= 0",
    "C18-deque-maxlen-lost-on-reboot": "one line-search failure with more than one point in memory, then > maxcor accepted updates",
    "C18-diag-skip-unmoved-isclose": "operator whose retained pairs all have |s_k[i]| <= 1e-8 (not zero) for some variable",
    "C08-cauchy-iter0-skips-memory": "non-empty memory together with iter == 0 (direct call, or restart with checkpoint.nit reset to 0)",
    "C08-cauchy-clamp-not-applied-to-c": "memory present, minimiser exactly on a breakpoint, a free variable remains (~1% of inputs)",
    "C08-cauchy-unique-drops-tied-breakpoints": "exact floating-point ties between breakpoints with the minimiser beyond the tie",
    "C09-freev-kept-first-order": "iteration > 0 with a previous free set and an entering variable of lower index than a staying one",
    "C09-lk-reuse-skipped-update": ">= 1 pair in memory, a skipped update, then a different free set (module-level cache)",
    "C09-subsm-bound-type-codes": "one-sided box with a step that must be truncated by the single finite bound",
    "C19-ackley-memo-holds-caller-array": "evaluate at x, update x in place, evaluate again on the same array object",
    "C19-griewank-grad-zero-cos-guard": "a coordinate exactly on a zero of cos(x_i/sqrt(i)) (hyperplanes inside [-5,5])",
    "C19-squeeze-input-drops-1d-axis": "dimension n = 1 (gradient returned with shape () instead of (1,))",
    "C11-ls-best-trial-shadowed-f0": ">= 2 trials, every trial uphill w.r.t. the start, termination by warning / cap exhaustion",
    "C11-ls-memo-sync-extra-eval": "cap exhausted with a non-monotone trial sequence (visible only by counting calls inside line_search)",
    "C11-ls-skip-projection-not-boxed": "box with at least one infinite and one finite bound; a trial landing on the finite bound with unlucky rounding",
    "C16-fd-bounds-only-when-boxed": "partly bounded box and an iterate on a finite bound on the side the stencil points to",
    "C16-unit-step-reuses-xbar": "subspace step truncated by a bound that rounds outward + unit step + any FD mode (two sites)",
    "C16-fd-pinned-variable-isclose-zero-grad": "a side narrower than 1e-5 relative / 1e-8 absolute with a real slope along it",
    "C12-ftol-linesearch-doc-default": "a line-search trial whose decrease falls between 1e-4 and 1e-3 of the linear prediction",
    "C12-curvature-abs-floor": "steps short enough that s.y < 1e-8 while |g| is still well above gtol",
    "C12-unconstrained-shortcut-unscaled-hessinv": "fully unbounded problem with n >= 2 and at least one stored pair",
    "C01-lnsrch-restart-task-never-cleared": "line-search failure, reboot, >= 1 successful iteration, then another failure far from the solution",
    "C01-freeset-selectors-reused-on-equal-count": "between two iterations one variable reaches a bound while another leaves one (same count)",
    "C01-cauchy-unbounded-breakpoints-dropped": "a variable on a one-sided bound with the gradient pushing inward and no finite breakpoint",
    # ---- round 4 (two more per property for ten properties, written against HEAD 544eae1)
    "C04-restart-target-returns-checkpoint": "run stopped by anything but the target, then a restart whose ftarget is already met, under budgets that make the old reason false",
    "C04-ftarget-ulp-slack": "an ftarget within 4 ulps below a value the run actually reaches",
    "C05-sf-no-defensive-copy": "an objective that works in place on the array it receives",
    "C05-restart-njev-restored-late": "run, restart with ftarget already satisfied (early return), then a further restart",
    "C06-restore-slice-negative-start": "split while the memory is between half full and full (maxcor/2 < pairs < maxcor)",
    "C06-nit-restored-only-with-history": "split exactly at an iteration whose line search failed (checkpoint with nit > 0 and no pair)",
    "C07-restore-drops-memory-on-status2": "restart from a CALLBACK state (status 2 while running), not from a returned result",
    "C07-cb-state-x-from-history": "an iteration whose curvature pair is rejected (non-convex objective in a box) with a callback",
    "C09-subsm-truncation-skips-one-sided-bounds": "one-sided bound that is the blocking one for the subspace Newton step",
    "C09-formk-offdiag-block-inplace-on-mats": ">= 1 stored pair, then a skipped update, then another iteration with free variables",
    "C10-theta-from-candidate-on-forced-rebuild": "rejected candidate together with a forced rebuild (update function or restart; raised eps_SY)",
    "C10-rejected-step-reanchors-memory": ">= 1 accepted pair followed by a rejected one",
    "C13-skip-recheck-on-same-deque": "update function rewriting the gradients in place and returning the same deque, with a pair losing its curvature",
    "C13-force-rebuild-only-when-trimmed": "objective switch where every stored pair keeps positive curvature but the newest step is rejected",
    "C14-shared-dcsrch-driver": "a second optimisation with equal line-search tolerances nested/interleaved inside a line search",
    "C14-restart-early-exit-updates-checkpoint": "checkpoint given and ftarget already met by it (early return)",
    "C18-wolfe-filter-vectorised": "update function rewriting gradients: a pair fails and the merged pair across the dropped point has s.y <= 0",
    "C18-diag-skip-uninformed-vars": "a variable whose yk column is all zero while its sk column is not (objective linear in that variable)",
    "C20-stopcrit-genexpr-resolution": "a callable ftarget/gtol raising StopIteration",
    "C20-linesearch-workspace-lock": "user fault inside a line search (call #1 or later), then a fault-free rerun in the same process",
    # ---- round 5 (two more for the other ten properties, written against HEAD 53a426a)
    "C01-selection-matrix-reuse": "two problems of different size solved in ONE process, the second starting with the free set the first ended with",
    "C01-vertex-start-skip": "start with every variable on a bound (vertex) and a non-zero projected gradient",
    "C02-fd-fixed-var-stencil": "finite-difference gradient mode with a variable lb == ub (visible only by recording evaluation points)",
    "C02-linesearch-isboxed-projection": "partly bounded box, step limited by a finite bound at iteration >= 1, unlucky rounding",
    "C03-iterate-from-memoized-trial": "truncated line search with a downhill trial followed by a worse last trial",
    "C03-ls-start-value-shadowed": "truncated line search (maxls 2-3) whose trials are all uphill and not monotone",
    "C08-first-iter-fastpath": "iter == 0 with a non-empty memory (direct call / checkpoint with nit reset to 0)",
    "C08-near-bound-tolerance": "a coordinate within ~eps*|g_i| of a finite bound but not on it, plus another moving variable",
    "C11-reposition-on-accepted-step": "evaluation cap exhausted and the lowest trial is not the last one (non-monotone objective along the ray)",
    "C11-wolfe-step-on-convergence": "objective flat at float resolution (1e17 + small) with an informative gradient",
    "C12-chol-ridge": "small-valued objective with a long gradient (f = eps*F(x/eps), eps = 1e-10)",
    "C12-grad-buffer-alias": "gradient callable returning the same buffer object at every call",
    "C15-fd-base-value-reuse": "2-point mode, gradient-only request at a new point after a value request elsewhere",
    "C15-flag-before-eval": "user function raising at a new point, then a retry at that point",
    "C16-isclose-fixed-mask": "bounds of large magnitude whose width is below 1e-5 relative (not fixed variables)",
    "C16-shared-fd-options": "a second finite-difference solve constructed while another is in progress (nested / threads)",
    "C17-scaler-skip-stationary-start": "scaler with s > 1 and a start with gtol/s < |proj grad| <= gtol",
    "C17-target-updatefun-scaled": "gradient_scaler (s != 1) + ftarget + update_fun_def together",
    "C19-griewank-cos-guard": "a coordinate within 1e-4*sqrt(i) of a zero of cos(x_i/sqrt(i))",
    "C19-quartic-grad-weight-cache": "second call of quartic_grad in the same dimension (cached weights overwritten in place)",
}


def sh(cmd, env=None, timeout=3600, cwd=None):
    p = subprocess.run(cmd, shell=True, capture_output=True, text=True, env=env, timeout=timeout, cwd=cwd)
    return p.returncode, (p.stdout + p.stderr)


def main():
    args = [a for a in sys.argv[1:] if not a.startswith("--")]
    opts = [a for a in sys.argv[1:] if a.startswith("--")]
    props_override = None
    for o in opts:
        if o.startswith("--props="):
            props_override = o.split("=", 1)[1].split(",")
    names = sorted(d for d in os.listdir(SEEDED) if os.path.isdir(os.path.join(SEEDED, d)))
    if args:
        names = [n for n in names if any(a in n for a in args)]
    for name in names:
        d = os.path.join(SEEDED, name)
        pid = name.split("-")[0]
        t0 = time.time()
        T = tempfile.mkdtemp(prefix="seedtest.", dir="/tmp")
        meta = {"name": name, "property": pid, "needs_to_manifest": NEEDS.get(name, "see notes.md"),
                "base_commit": sh("git -C /repo rev-parse --short HEAD")[1].strip(), "ran": []}
        try:
            sh(f"git -C /repo archive HEAD | tar -x -C {T}")
            env = dict(os.environ, PYTHONPATH=T)
            rc0, _ = sh(f"/venv/bin/python -W ignore {d}/demo.py", env=env, cwd=T, timeout=1800)
            rc, out = sh(f"cd {T} && git init -q . && git apply --whitespace=nowarn {d}/patch.diff")
            meta["patch_applies"] = rc == 0
            if rc != 0:
                meta["error"] = out[-400:]
                print(f"{name}: PATCH DOES NOT APPLY on {meta['base_commit']}")
                json.dump(meta, open(os.path.join(d, "meta.json"), "w"), indent=1)
                continue
            meta["ran"].append("git apply patch.diff on a scratch copy of HEAD")
            if "--no-tests" not in opts:
                rct, outt = sh("/venv/bin/python -m pytest -q -p no:cacheprovider -x 2>&1 | tail -1", env=env, cwd=T,
                               timeout=1800)
                meta["tests_with_change"] = outt.strip()[-80:]
                meta["ran"].append("repository test suite on the changed copy")
            rc1, out1 = sh(f"/venv/bin/python -W ignore {d}/demo.py", env=env, cwd=T, timeout=1800)
            meta["demo_exit_without_change"] = rc0
            meta["demo_exit_with_change"] = rc1
            meta["ran"].append("demo.py without and with the change")
            meta["confirmed"] = bool(rc0 == 0 and rc1 != 0 and "passed" in meta.get("tests_with_change", "passed")
                                     and "failed" not in meta.get("tests_with_change", ""))
            cb = os.path.join(d, "confirm_base")
            if not meta["confirmed"] and os.path.exists(cb):
                # the demonstration needs a trigger that a later fix: commit removed; the change is then confirmed on
                # the commit it was written against, and the checks still run on HEAD + change
                base = open(cb).read().split()[0]
                T2 = tempfile.mkdtemp(prefix="seedtest.", dir="/tmp")
                try:
                    sh(f"git -C /repo archive {base} | tar -x -C {T2}")
                    env2 = dict(os.environ, PYTHONPATH=T2)
                    r0, _ = sh(f"/venv/bin/python -W ignore {d}/demo.py", env=env2, cwd=T2, timeout=1800)
                    ra, _ = sh(f"cd {T2} && git init -q . && git apply --whitespace=nowarn {d}/patch.diff")
                    rt, ot = sh("/venv/bin/python -m pytest -q -p no:cacheprovider -x 2>&1 | tail -1", env=env2, cwd=T2,
                                timeout=1800)
                    r1, _ = sh(f"/venv/bin/python -W ignore {d}/demo.py", env=env2, cwd=T2, timeout=1800)
                    meta["confirm_base"] = {"commit": base, "patch_applies": ra == 0, "tests_with_change": ot.strip()[-80:],
                                            "demo_exit_without_change": r0, "demo_exit_with_change": r1,
                                            "why": " ".join(open(cb).read().split()[1:])}
                    meta["confirmed_on_confirm_base"] = bool(ra == 0 and r0 == 0 and r1 != 0 and "passed" in ot
                                                             and "failed" not in ot)
                    meta["ran"].append(f"tests + demo.py without and with the change on a scratch copy of {base}")
                finally:
                    shutil.rmtree(T2, ignore_errors=True)
            checks = {}
            for p in (props_override or [pid]):
                envc = dict(os.environ, LBFGSB_REPO=T)
                rcc, outc = sh(f"cd /verif && python3-vt checks/run.py {p} --tier quick", env=envc, timeout=7200)
                lines = [ln for ln in outc.splitlines() if "conda" not in ln]
                viol = [ln for ln in lines if ln.startswith("VIOLATION")]
                first = [ln.strip() for ln in lines if ln.startswith("  obligation") or ln.startswith("  bounded")][:3]
                checks[p] = {"exit": rcc, "violations": len(viol), "first": [f[:260] for f in first],
                             "native_confirmed": any("no-failing-input-found" not in v for v in viol)}
                meta["ran"].append(f"python3-vt checks/run.py {p} --tier quick (LBFGSB_REPO=scratch copy)")
            meta["checks"] = checks
            meta["detected"] = any(c["exit"] == 1 for c in checks.values())
            meta["wall_s"] = round(time.time() - t0, 1)
            if meta.get("confirmed_on_confirm_base"):
                print(f"{name}: latent on HEAD; confirmed on {meta['confirm_base']['commit']}")
            print(f"{name}: confirmed={meta['confirmed']} detected={meta['detected']} "
                  + " ".join(f"{p}:exit{c['exit']}" for p, c in checks.items()) + f" ({meta['wall_s']}s)")
            for p, c in checks.items():
                for f in c["first"][:1]:
                    print("    ", f[:200])
        finally:
            shutil.rmtree(T, ignore_errors=True)
        json.dump(meta, open(os.path.join(d, "meta.json"), "w"), indent=1)


if __name__ == "__main__":
    main()
