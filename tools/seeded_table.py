#!/usr/bin/env python3
"""Markdown table of the seeded changes and which checks catch them (from seeded/*/meta.json)."""
import json
import os

S = "/verif/seeded"
rows = []
for d in sorted(os.listdir(S)):
    p = os.path.join(S, d, "meta.json")
    if not os.path.exists(p):
        rows.append((d, "?", "?", "not evaluated", ""))
        continue
    m = json.load(open(p))
    chk = m.get("checks", {})
    caught = [f"{k} (exit {v['exit']})" for k, v in chk.items()]
    first = ""
    for v in chk.values():
        if v.get("first"):
            f = v["first"][0]
            first = f.split("refuted")[0].replace("obligation ", "").strip() if "obligation" in f else f[:110]
            first = first[:120]
            break
    conf = "yes" if m.get("confirmed") else "NO"
    if not m.get("confirmed") and m.get("confirmed_on_confirm_base"):
        conf = f"on {m['confirm_base']['commit']} (latent on HEAD)"
    first = first.replace("|", "/")
    kind = "bounded" if first.startswith("bounded") else "deductive"
    rows.append((d, conf, ("yes, " + kind) if m.get("detected") else "NO",
                 ", ".join(caught), first))
print("| seeded change | confirmed | caught | check | first failing obligation / clause |")
print("|---|---|---|---|---|")
for r in rows:
    print("| " + " | ".join(r) + " |")
print()
print(f"{sum(1 for r in rows if r[2].startswith('yes'))} of {len(rows)} caught; "
      f"{sum(1 for r in rows if r[2] == 'yes, deductive')} by a deductive obligation first, "
      f"{sum(1 for r in rows if r[2] == 'yes, bounded')} by the bounded stand-in only")
