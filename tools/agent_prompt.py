#!/usr/bin/env python3
"""Prints the prompt given to a fresh sub-agent that seeds property-breaking changes (only the property text and
its own scratch worktree; nothing from /verif)."""
import json
import sys

pid = sys.argv[1]
wt = sys.argv[2]
n = sys.argv[3] if len(sys.argv) > 3 else "THREE"
for line in open("/verif/properties.jsonl"):
    p = json.loads(line)
    if p["id"] == pid:
        break
print(f"""You are helping test a verification effort for the Python package `lbfgsb` (a pure-Python reimplementation of the L-BFGS-B bound-constrained optimizer; public entry `lbfgsb.minimize_lbfgsb`, source under lbfgsb/). You have your own scratch git worktree of the repository at {wt} (work ONLY inside that directory; never touch /repo or /verif). Python to use: `/venv/bin/python` (the package is an editable install of another checkout, so ALWAYS run with `PYTHONPATH={wt}` so that your worktree's code is imported; verify with `PYTHONPATH={wt} /venv/bin/python -c "import lbfgsb; print(lbfgsb.__file__)"`). There is no network.

Here is a semantic property the package is supposed to satisfy:

{p['id']} - "{p['title']}".
Statement: {p['statement']}
Quantifier: {p['quantifier']['text']}

Your task: produce {n} different, independent, realistic code changes (each a separate small patch against the pristine worktree) to the package source (files under lbfgsb/, not tests) that BREAK this property while (a) the package still imports and (b) the existing test suite still passes completely: `cd {wt} && PYTHONPATH={wt} /venv/bin/python -m pytest -q -p no:cacheprovider` (106 tests pass on the pristine tree; they must all still pass with each change - note the suite includes end-to-end optimisations with asserted iteration counts/values, so a change that alters ordinary runs will likely fail them). Prefer changes that need something specific to manifest - a particular configuration or interleaving, a fault at a particular point, a multi-step sequence of operations, an unusual input, or two cooperating sites that each look fine alone - NOT changes that ordinary use would expose at once. Make them look like plausible refactors/optimisations/bug-fix attempts a developer might really commit. The changes should use different mechanisms from one another.

For each change create a directory {wt}/seeded_out/<short-name>/ containing:
 - patch.diff : `git diff` of the change against the pristine tree (must apply with `git apply` to a clean checkout)
 - demo.py : a small standalone program (run as `PYTHONPATH=<tree> /venv/bin/python demo.py`) that exits 0 on the pristine tree and exits non-zero (with a clear message) on the changed tree, demonstrating the property violation through the package's public behaviour
 - notes.md : what the change is, why it breaks {p['id']}, what specific input/sequence/configuration is needed to manifest, and the result of the full test suite with the change applied (pass count).
IMPORTANT: the demo must pass (exit 0) on the pristine tree - check this first and design the demo around behaviour that is correct on the pristine tree. After writing each patch, reset the worktree (`git -C {wt} checkout -- .`) before making the next one, and at the end leave the worktree clean (only the untracked seeded_out/ directory). Verify each yourself: apply patch to clean tree -> tests pass, demo fails; revert -> demo passes. Do NOT use `git stash` (the stash is shared with other worktrees of the same repository); use `git diff > patch.diff`, `git checkout -- .`, `git apply` / `git apply -R` instead.

Report back a short summary: for each change its directory name, a one-line description, and the confirmation results.""")
