"""pyvc - verification-condition generator / symbolic executor for the Python subset lbfgsb is written in.

Re-reads /repo/lbfgsb/*.py on every run; contracts live in /verif/contracts (sidecar, no edit of /repo).
"""
