"""z3-free value classes shared by the symbolic and the concrete (cross-check) uses of the interpreter."""


class Unsupported(Exception):
    """The executor met something outside its subset: checker error (exit 3), never a verdict."""


class PathEnd(Exception):
    """Path infeasible, or deliberately finished (after a loop-body 'preserved' check)."""


class ModelValue:
    """Base class of every symbolic-domain value; anything else is a native python object."""
    __slots__ = ()


def is_model(v):
    return isinstance(v, ModelValue)


MODEL_TYPES = (ModelValue,)


class ReturnEx(Exception):
    def __init__(self, v):
        self.v = v


class BreakEx(Exception):
    pass


class ContinueEx(Exception):
    pass


class PyExc(Exception):
    """A python-level exception travelling through interpreted code (symbolic mode)."""

    def __init__(self, exc):
        self.exc = exc

    def __str__(self):
        return f"PyExc({self.exc!r})"


class Env:
    __slots__ = ("v", "parent", "lazy", "builtins", "module")

    def __init__(self, parent=None):
        self.v, self.parent = {}, parent
        self.lazy = {}
        self.builtins = None
        self.module = parent.module if parent is not None else None

    def get(self, k):
        e = self
        while e is not None:
            if k in e.v:
                return e.v[k]
            e = e.parent
        raise KeyError(k)

    def has(self, k):
        e = self
        while e is not None:
            if k in e.v:
                return True
            e = e.parent
        return False

    def set(self, k, val):
        self.v[k] = val


class Closure:
    """An interpreted function.  Callable from native code too (scipy calling back into interpreted closures)."""

    def __init__(self, node, env, qualname, interp):
        self.node, self.env, self.qualname, self.interp = node, env, qualname, interp
        self.defaults = None
        self.info = None

    def __call__(self, *args, **kw):
        return self.interp.call_closure(self, list(args), kw)

    def __repr__(self):
        return f"<closure {self.qualname}>"


class BoundMethod:
    def __init__(self, obj, fn):
        self.obj, self.fn = obj, fn

    def __call__(self, *args, **kw):
        return self.fn.interp.call_closure(self.fn, [self.obj] + list(args), kw)

    def __repr__(self):
        return f"<bound {self.fn.qualname}>"


class ClassV:
    def __init__(self, name, node, module):
        self.name, self.node, self.module = name, node, module
        self.methods, self.props, self.attrs = {}, {}, {}

    def __repr__(self):
        return f"<class {self.module}.{self.name}>"


class NativeObj:
    """Concrete-mode instance of an interpreted class, or a repository-module handle."""

    def __init__(self, kind, payload):
        self.kind, self.payload = kind, payload
        self.f = {}

    def getattr(self, interp, attr):
        if self.kind != "instance":
            raise Unsupported(f"getattr on {self.kind}")
        if attr in self.f:
            return self.f[attr]
        cls = self.payload
        if attr in cls.props:
            return interp.call_closure(cls.props[attr], [self], {})
        if attr in cls.methods:
            return BoundMethod(self, cls.methods[attr])
        if attr in cls.attrs:
            return cls.attrs[attr]
        raise AttributeError(attr)

    def setattr(self, interp, attr, v):
        self.f[attr] = v

    def call(self, interp, args, kw):
        raise Unsupported("call of native object")

    def __repr__(self):
        return f"<native {self.kind} {self.payload}>"
