"""Symbolic domain: how model values behave under python operations.

Two float/array domains share this class (run.mode):
  'uf'   - arrays are opaque Vec values, float arithmetic is uninterpreted (bit-for-bit provenance, control flow);
  'real' - arrays have a fixed concrete shape with scalar entries, float arithmetic is real arithmetic.
Integers are exact in both.  Comparisons are interpreted (floats embed in the reals; NaN excluded: A-NAN).
"""
import ast
import itertools

import z3

from .values import (Closure, BoundMethod, ClassV, PyExc, Unsupported, PathEnd, is_model, ModelValue, Env)
from .sym import (Sym, Arr, ND, MatTerm, Obj, DequeV, SymDeque, UserFn, LibFn, Module, SymBytes, ExcV, Vec, R, I, B,
                  INF, zexpr, zreal, zint, zbool, wrap, uf, fop, is_intlike, is_sym)

EXC_PARENT = {
    "BaseException": None, "Exception": "BaseException", "KeyboardInterrupt": "BaseException",
    "SystemExit": "BaseException", "GeneratorExit": "BaseException",
    "TypeError": "Exception", "ValueError": "Exception", "LookupError": "Exception", "IndexError": "LookupError",
    "KeyError": "LookupError", "AssertionError": "Exception", "AttributeError": "Exception",
    "NameError": "Exception", "ArithmeticError": "Exception", "ZeroDivisionError": "ArithmeticError",
    "OverflowError": "ArithmeticError", "FloatingPointError": "ArithmeticError", "RuntimeError": "Exception",
    "NotImplementedError": "RuntimeError", "StopIteration": "Exception", "OSError": "Exception",
    "MemoryError": "Exception", "UnboundLocalError": "NameError", "LinAlgError": "ValueError",
    "DeprecationWarning": "Exception", "Warning": "Exception",
}


def exc_ancestors(c):
    out = []
    while c is not None:
        out.append(c)
        c = EXC_PARENT.get(c)
    return out


class ExcClass(ModelValue):
    __slots__ = ("name",)

    def __init__(self, name):
        self.name = name

    def __repr__(self):
        return f"<excclass {self.name}>"


class LibMethod(ModelValue):
    __slots__ = ("name", "obj")

    def __init__(self, name, obj):
        self.name, self.obj = name, obj

    def __repr__(self):
        return f"<libmethod {self.name}>"


class CtxNoop(ModelValue):
    __slots__ = ("name",)

    def __init__(self, name):
        self.name = name


class RangeV(ModelValue):
    """range(start, stop, step) with symbolic bounds and a concrete non-zero step (only consumed by `for` loops
    under an invariant).  n = number of iterations."""
    __slots__ = ("start", "stop", "step")

    def __init__(self, start, stop=None, step=1):
        if stop is None:
            start, stop = 0, start
        self.start, self.stop, self.step = start, stop, step

    @property
    def n(self):
        import z3 as _z3
        from .sym import zint, wrap
        a, b = zint(self.start), zint(self.stop)
        if self.step > 0:
            cnt = (b - a + (self.step - 1)) / self.step
        else:
            cnt = (a - b + (-self.step - 1)) / (-self.step)
        return wrap(_z3.If(cnt >= 0, cnt, 0))

    def value_at(self, j):
        from .sym import zint, wrap
        return wrap(zint(self.start) + self.step * zint(j))


MOD_CANON = {"numpy": "np", "scipy": "sp"}


def canon_mod(name):
    parts = name.split(".")
    parts[0] = MOD_CANON.get(parts[0], parts[0])
    return ".".join(parts)


class Domain:
    skip_logging = True
    skip_dead_stores = True
    allow_unbounded_loops = False

    def __init__(self, run, lib=None):
        self.run = run
        self.interp = None
        self.lib = dict(lib or {})
        self.user_models = {}
        self.user_may_raise = True
        self.write_hook = None
        self.caught = []            # (exc, handler lineno, qualname)
        self.unwind_failures = []
        self.scipy_version = None

    # ------------------------------------------------------------------ environment
    def builtins(self):
        b = {}
        for name in EXC_PARENT:
            b[name] = ExcClass(name)
        for name in ("callable", "len", "min", "max", "abs", "float", "int", "bool", "range", "zip", "any", "all",
                     "list", "tuple", "str", "isinstance", "enumerate", "sum", "round", "sorted", "reversed",
                     "print", "property", "dict", "repr", "format"):
            b[name] = LibFn(name)
        b["True"], b["False"], b["None"] = True, False, None
        return b

    def import_module(self, name, has_as):
        if has_as:
            return Module(canon_mod(name))
        return Module(canon_mod(name.split(".")[0]))

    def import_from(self, mod, name):
        full = canon_mod(mod) + "." + name
        if mod in ("typing", "typing_extensions", "numpy.typing"):
            return LibFn(full)
        if full == "sp.__version__":
            return self.get_scipy_version()
        if mod == "dataclasses" and name == "dataclass":
            return LibFn("dataclasses.dataclass")
        return LibFn(full)

    def get_scipy_version(self):
        if self.scipy_version is None:
            import glob
            import re
            v = None
            for p in glob.glob("/venv/lib/python3*/site-packages/scipy-*.dist-info"):
                m = re.search(r"scipy-([0-9][^/]*)\.dist-info", p)
                if m:
                    v = m.group(1)
            if v is None:
                raise Unsupported("cannot determine the installed scipy version")
            self.scipy_version = v
        return self.scipy_version

    def at_stmt(self, n, info):
        self.run.site = (info.qualname if info else "?", getattr(n, "lineno", 0))

    def new_instance(self, cls):
        return Obj(cls, self.run.new_ref())

    def eval_defaults(self, interp, clo):
        from .interp import _MISSING
        a = clo.node.args
        key = clo.qualname
        cache = self.run.defaults_cache
        if key not in cache:
            old = self.run.alloc_region
            self.run.alloc_region = "global"
            try:
                dflt = [interp.eval(d, clo.env) for d in a.defaults]
                kwdflt = [interp.eval(d, clo.env) if d is not None else _MISSING for d in a.kw_defaults]
            finally:
                self.run.alloc_region = old
            cache[key] = (dflt, kwdflt)
        return cache[key]

    # ------------------------------------------------------------------ exceptions
    def make_exc(self, clsname, args=(), tag=None):
        return ExcV(clsname, args, tag)

    def as_exception(self, v):
        if isinstance(v, ExcV):
            return v
        if isinstance(v, ExcClass):
            return ExcV(v.name)
        raise Unsupported(f"raise of non-exception {v!r}")

    def exc_isinstance(self, exc, ty):
        if not isinstance(ty, ExcClass):
            raise Unsupported(f"except clause with non-class {ty!r}")
        if not isinstance(exc, ExcV):
            raise Unsupported("native exception in symbolic mode")
        if exc.cls is not None:
            return ty.name in exc_ancestors(exc.cls)
        # symbolic class K of a user-raised exception: fork on K <= ty, consistently with earlier answers
        name = ty.name
        if name in exc.isa:
            return exc.isa[name]
        if name == "BaseException":
            exc.isa[name] = True
            return True
        for known, ans in list(exc.isa.items()):
            if ans and name in exc_ancestors(known):
                exc.isa[name] = True
                return True
            if (not ans) and known in exc_ancestors(name):
                exc.isa[name] = False
                return False
        k = self.run.choose(f"exc{exc.id}<={name}", 2)
        exc.isa[name] = (k == 0)
        return exc.isa[name]

    def on_caught(self, exc, handler, info):
        self.caught.append((exc, handler.lineno, info.qualname if info else "?"))

    def ctx_enter(self, cm):
        return None

    def ctx_exit(self, cm):
        return None

    def unwinding_failed(self, info, k, bound):
        self.unwind_failures.append((info.qualname, k, bound))
        self.run.oblige(f"{info.qualname}::loop#{k}::unwinding", False, backend="structural",
                        info=f"guard still satisfiable after {bound} unrollings")

    # ------------------------------------------------------------------ truth / identity
    def truth(self, v):
        if isinstance(v, Sym):
            return self.run.branch(v)
        if isinstance(v, Arr):
            c = self.run.heap[v.ref]
            if isinstance(c, ND) and len(c.flat) == 1:
                return self.truth(self.scalar_out(c.flat[0]))
            raise Unsupported("truth value of an array")
        if isinstance(v, DequeV):
            return self.run.truth(v)
        if is_model(v):
            return True
        return bool(v)

    def not_(self, v):
        if isinstance(v, Sym):
            return wrap(z3.Not(zbool(v)))
        return not self.truth(v)

    def identical(self, a, b):
        if isinstance(a, (Arr, DequeV)) and isinstance(b, type(a)):
            return a.ref == b.ref
        if isinstance(a, Obj) and isinstance(b, Obj):
            return a.ref == b.ref
        if isinstance(a, Sym) or isinstance(b, Sym):
            if a is None or b is None:
                return False
            if isinstance(a, bool) or isinstance(b, bool):
                # `x is True` on a symbolic bool is not used by the code base
                raise Unsupported("identity test between symbolic scalars")
            return a is b
        return a is b

    # ------------------------------------------------------------------ scalars
    def scalar_out(self, v):
        if z3.is_expr(v):
            return wrap(v)
        return v

    def is_scalar(self, v):
        return isinstance(v, (Sym, bool, int, float)) and not isinstance(v, (Arr,))

    def scalar_binop(self, op, a, b):
        a = self._np_scalar(a)
        b = self._np_scalar(b)
        if not isinstance(a, Sym) and not isinstance(b, Sym):
            return self.concrete_binop(op, a, b)
        if is_intlike(a) and is_intlike(b) and op in ("Add", "Sub", "Mult", "FloorDiv", "Mod"):
            ea, eb = zint(a), zint(b)
            if op == "Add":
                return wrap(ea + eb)
            if op == "Sub":
                return wrap(ea - eb)
            if op == "Mult":
                return wrap(ea * eb)
            if op == "FloorDiv":
                return wrap(ea / eb)
            return wrap(ea % eb)
        if op in ("BitAnd", "BitOr") and self._boolish(a) and self._boolish(b):
            return wrap(z3.And(zbool(a), zbool(b)) if op == "BitAnd" else z3.Or(zbool(a), zbool(b)))
        if self.run.mode == "real":
            return self.real_binop(op, a, b)
        return self.uf_binop(op, a, b)

    @staticmethod
    def _boolish(v):
        return isinstance(v, bool) or (isinstance(v, Sym) and v.e.sort() == B)

    @staticmethod
    def _np_scalar(v):
        return v

    def concrete_binop(self, op, a, b):
        from .interp import BINOPS
        try:
            return BINOPS[op](a, b)
        except ZeroDivisionError:
            if isinstance(a, float) or isinstance(b, float):
                # numpy semantics for float64 scalars
                if op == "Div":
                    if a == 0 or a != a:
                        return float("nan")
                    return INF if (a > 0) else -INF
            raise PyExc(self.make_exc("ZeroDivisionError", ("division by zero",)))

    def comm(self, name, sa, sr, a, b):
        """term name(a,b) of a commutative IEEE operation + the ground commutativity instance."""
        f = uf(name, sa, sa, sr)
        t = f(a, b)
        if a.get_id() != b.get_id():
            self.run.assume(t == f(b, a))
        return t

    def uf_binop(self, op, a, b):
        ea, eb = self.uf_real(a), self.uf_real(b)
        if op == "Mult":
            if self._is_one(a):
                return wrap(eb)
            if self._is_one(b):
                return wrap(ea)
            return Sym(self.comm("fmul", R, R, ea, eb))
        if op == "Div":
            if self._is_one(b):
                return wrap(ea)
            return Sym(fop("fdiv", ea, eb))
        if op == "Add":
            return Sym(self.comm("fadd", R, R, ea, eb))
        if op == "Sub":
            return Sym(fop("fsub", ea, eb))
        if op == "Pow":
            return Sym(fop("fpow", ea, eb))
        if op == "Mod":
            return Sym(fop("fmod", ea, eb))
        if op == "FloorDiv":
            return Sym(fop("ffloordiv", ea, eb))
        raise Unsupported(f"scalar op {op} in the UF domain")

    def uf_real(self, v):
        if isinstance(v, float) and (v in (INF, -INF) or v != v):
            if v != v:
                raise Unsupported("NaN constant")
            c = z3.Const("FLOAT_INF", R)
            return c if v > 0 else uf("fneg", R, R)(c)
        return zreal(v)

    @staticmethod
    def _is_one(v):
        return isinstance(v, (int, float)) and not isinstance(v, bool) and v == 1

    def real_binop(self, op, a, b):
        for v, o, left in ((a, b, True), (b, a, False)):
            if isinstance(v, float) and v in (INF, -INF):
                return self.real_inf_binop(op, a, b)
        ea, eb = zreal(a), zreal(b)
        if op == "Add":
            return wrap(ea + eb)
        if op == "Sub":
            return wrap(ea - eb)
        if op == "Mult":
            return wrap(ea * eb)
        if op == "Div":
            return wrap(ea / eb)
        if op == "Pow":
            if isinstance(b, (int, float)) and float(b).is_integer() and 0 <= int(b) <= 8:
                r = z3.RealVal(1)
                for _ in range(int(b)):
                    r = r * ea
                return wrap(r)
            if isinstance(b, float) and b == 0.5:
                return self.real_sqrt(a)
            raise Unsupported(f"power with exponent {b!r} in the real domain")
        raise Unsupported(f"scalar op {op} in the real domain")

    def real_inf_binop(self, op, a, b):
        """One operand is a concrete +-inf, the other symbolic and (assumed) finite."""
        ainf = isinstance(a, float) and a in (INF, -INF)
        if op == "Add":
            return a if ainf else b
        if op == "Sub":
            return a if ainf else -b
        if op == "Div":
            if ainf:
                # inf / finite: sign depends on the finite operand
                pos = self.run.branch(zreal(b) > 0)
                return a if pos else -a
            return 0.0
        if op == "Mult":
            inf, oth = (a, b) if ainf else (b, a)
            if self.run.branch(zreal(oth) > 0):
                return inf
            if self.run.branch(zreal(oth) < 0):
                return -inf
            return float("nan")
        raise Unsupported(f"op {op} with an infinite operand")

    def real_sqrt(self, a):
        """sqrt as a fresh non-negative symbol r with r*r == a (requires a >= 0: obligation)."""
        if not isinstance(a, Sym):
            import math
            if a < 0:
                return float("nan")
            r = math.sqrt(a)
            if r * r == a:
                return r
        ea = zreal(a)
        key = ("sqrt", ea.get_id())
        cache = self.run.ghost.setdefault("sqrt_cache", {})
        if key in cache:
            return cache[key][0]
        self.run.oblige("sqrt::arg_nonneg", ea >= 0, props=("SAFE",))
        r = self.run.fresh("sqrt", R)
        self.run.assume(z3.And(r >= 0, r * r == ea))
        out = Sym(r)
        cache[key] = (out, ea)
        return out

    def scalar_compare(self, op, a, b):
        if not isinstance(a, Sym) and not isinstance(b, Sym):
            from .interp import CMPOPS
            return CMPOPS[op](a, b)
        for v in (a, b):
            if isinstance(v, float) and v in (INF, -INF) and self.run.mode == "real":
                return self.inf_compare(op, a, b)
        if self._boolish(a) and self._boolish(b):
            ea, eb = zbool(a), zbool(b)
        elif is_intlike(a) and is_intlike(b):
            ea, eb = zint(a), zint(b)
        else:
            ea, eb = (self.uf_real(a), self.uf_real(b)) if self.run.mode == "uf" else (zreal(a), zreal(b))
        if op == "Lt":
            return wrap(ea < eb)
        if op == "Gt":
            return wrap(ea > eb)
        if op == "LtE":
            return wrap(ea <= eb)
        if op == "GtE":
            return wrap(ea >= eb)
        if op == "Eq":
            return wrap(ea == eb)
        if op == "NotEq":
            return wrap(ea != eb)
        raise Unsupported(f"comparison {op}")

    @staticmethod
    def inf_compare(op, a, b):
        """symbolic finite value against a concrete infinity."""
        if isinstance(a, float) and a in (INF, -INF):
            pos = a > 0
            return {"Lt": not pos, "Gt": pos, "LtE": not pos, "GtE": pos, "Eq": False, "NotEq": True}[op]
        pos = b > 0
        return {"Lt": pos, "Gt": not pos, "LtE": pos, "GtE": not pos, "Eq": False, "NotEq": True}[op]

    def scalar_unary(self, op, v):
        if not isinstance(v, Sym):
            import operator as _op
            return {"USub": _op.neg, "UAdd": _op.pos, "Invert": _op.invert}[op](v)
        if op == "UAdd":
            return v
        if op == "USub":
            if v.e.sort() == I:
                return wrap(-v.e)
            if self.run.mode == "real":
                return wrap(-zreal(v))
            return Sym(uf("fneg", R, R)(zreal(v)))
        if op == "Invert" and v.e.sort() == B:
            return wrap(z3.Not(v.e))
        raise Unsupported(f"unary {op}")

    # ------------------------------------------------------------------ heap writes / frames
    FRAME_NAMES = {"caller": "frame::no_write_caller_owned", "global": "frame::no_write_global",
                   "escaped": "frame::no_write_escaped", "user_result": "frame::no_write_user_result"}

    def check_write(self, ref, what):
        run = self.run
        reg = run.region.get(ref, "local")
        ok = reg == "local"
        name = self.FRAME_NAMES.get(reg, "frame::no_write_caller_owned")
        if ok:
            run.oblige("frame::write_is_local", True, props=("FRAME",), backend="frame")
        else:
            esc = tuple("ESC:" + w for w in sorted(run.ghost.get("escaped_to", {}).get(ref, ()))) \
                if reg == "escaped" else ()
            run.oblige(name, False, props=("FRAME", "FRAME:" + reg) + esc, backend="frame",
                       info=f"{what}: in-place write to an array owned by '{reg}' "
                            f"({run.tags.get(ref, 'untagged')}) at {run.site}")
        if ref in run.frozen:
            run.oblige("frame::history_not_aliased", False, props=("FRAME", "HIST"), backend="frame",
                       info=f"{what}: in-place write to an array stored in {run.frozen[ref]} at {run.site}")
        if self.write_hook is not None:
            self.write_hook(ref, what)

    def escape(self, v, why, seen=None):
        """Hand a value to user code: every array reachable from it becomes caller-visible."""
        run = self.run
        seen = seen if seen is not None else set()
        if isinstance(v, (Arr, DequeV)):
            if v.ref in seen:
                return
            seen.add(v.ref)
            run.ghost.setdefault("escaped_to", {}).setdefault(v.ref, set()).add(why)
            if run.region.get(v.ref) == "local":
                run.region[v.ref] = "escaped"
                run.tags[v.ref] = why
            c = run.heap.get(v.ref)
            if isinstance(v, DequeV) and isinstance(c, list):
                for e in c:
                    self.escape(e, why, seen)
        elif isinstance(v, Obj):
            if v.ref in seen:
                return
            seen.add(v.ref)
            if run.region.get(v.ref) == "local":
                run.region[v.ref] = "escaped"
            for x in v.f.values():
                self.escape(x, why, seen)
        elif isinstance(v, (tuple, list)):
            for x in v:
                self.escape(x, why, seen)
        elif isinstance(v, dict):
            for x in v.values():
                self.escape(x, why, seen)

    # ------------------------------------------------------------------ generic dispatch
    def lib_call(self, name, args, kw, site=None):
        f = self.lib.get(name)
        if f is None:
            raise Unsupported(f"no model for library function {name} (called at {self.run.site})")
        return f(self, args, kw)

    def call(self, f, args, kw, site=None):
        if isinstance(f, LibFn):
            return self.lib_call(f.name, args, kw, site)
        if isinstance(f, LibMethod):
            return self.lib_call(f.name, [f.obj] + list(args), kw, site)
        if isinstance(f, UserFn):
            return self.call_user(f, args, kw, site)
        if isinstance(f, ExcClass):
            return ExcV(f.name, args)
        if isinstance(f, (Sym, Arr, Obj, DequeV)):
            raise PyExc(self.make_exc("TypeError", (f"'{type(f).__name__}' object is not callable",)))
        raise Unsupported(f"call of {f!r}")

    def call_native_with_models(self, f, args, kw, site=None):
        if not callable(f):
            raise PyExc(self.make_exc("TypeError", (f"'{type(f).__name__}' object is not callable",)))
        raise Unsupported(f"native callable {f!r} applied to symbolic values")

    def call_user(self, fn, args, kw, site=None):
        run = self.run
        model = self.user_models.get(fn.kind)
        if model is None:
            raise Unsupported(f"no model for user callable kind {fn.kind}")
        cnt = run.ghost.setdefault("calls", {})
        cnt[fn.name] = self.scalar_binop("Add", cnt.get(fn.name, 0), 1)
        snap = tuple(self.snapshot(a) for a in args)
        run.log.append(("user_call", fn.name, snap, run.site))
        for a in list(args) + list(kw.values()):
            self.escape(a, fn.name)
        if self.user_may_raise:
            if run.choose(f"raise:{fn.name}", 2) == 1:
                exc = ExcV(None, (), tag=("user", fn.name, run.site, cnt[fn.name] if not isinstance(cnt[fn.name], Sym) else "k"))
                run.log.append(("user_raise", fn.name, exc.id, run.site))
                run.ghost.setdefault("user_excs", []).append(exc)
                raise PyExc(exc)
        res = model(self, fn, args, kw)
        run.log.append(("user_return", fn.name, self.snapshot(res), run.site))
        return res

    def snapshot(self, v):
        run = self.run
        if isinstance(v, Arr):
            return ("arr", v.ref, run.heap[v.ref])
        if isinstance(v, DequeV):
            c = run.heap[v.ref]
            if isinstance(c, list):
                return ("deque", v.ref, tuple(self.snapshot(e) for e in c))
            return ("symdeque", v.ref, (c.a, c.lo, c.hi))
        if isinstance(v, Obj):
            return ("obj", v.ref, {k: self.snapshot(x) for k, x in v.f.items()})
        if isinstance(v, tuple):
            return tuple(self.snapshot(x) for x in v)
        return v

    def getattr(self, o, attr):
        run = self.run
        if isinstance(o, Module):
            full = o.name + "." + attr
            h = self.lib.get("attr:" + full)
            if h is not None:
                return h(self)
            if full in ("np.inf",):
                return INF if run.mode == "real" else INF
            if full == "np.pi":
                if run.mode == "cas":
                    import sympy
                    return sympy.pi
                import math
                return math.pi
            if full == "np.nan":
                return float("nan")
            if full in ("np.float64", "np.int_", "np.intc", "np.int64", "np.float32"):
                return LibFn(full)
            if full in SUBMODULES:
                return Module(full)
            return LibFn(full)
        if isinstance(o, LibFn):
            return LibFn(o.name + "." + attr)
        if isinstance(o, Obj):
            if attr in o.f:
                return o.f[attr]
            cls = o.cls
            if isinstance(cls, ClassV):
                if attr in cls.props:
                    return self.interp.call_closure(cls.props[attr], [o], {})
                if attr in cls.methods:
                    return BoundMethod(o, cls.methods[attr])
                if attr in cls.attrs:
                    return cls.attrs[attr]
                raise PyExc(self.make_exc("AttributeError", (f"'{cls.name}' object has no attribute '{attr}'",)))
            h = self.lib.get(f"getattr:{cls}.{attr}")
            if h is not None:
                return h(self, o)
            if f"{cls}.{attr}" in self.lib:
                return LibMethod(f"{cls}.{attr}", o)
            raise PyExc(self.make_exc("AttributeError", (f"'{cls}' object has no attribute '{attr}'",)))
        if isinstance(o, Arr):
            h = self.lib.get("arrattr:" + attr)
            if h is not None:
                return h(self, o)
            if "ndarray." + attr in self.lib:
                return LibMethod("ndarray." + attr, o)
            raise Unsupported(f"ndarray attribute {attr} (at {run.site})")
        if isinstance(o, DequeV):
            if "deque." + attr in self.lib:
                return LibMethod("deque." + attr, o)
            raise Unsupported(f"deque attribute {attr}")
        if isinstance(o, Sym):
            if "scalar." + attr in self.lib:
                return LibMethod("scalar." + attr, o)
            raise Unsupported(f"scalar attribute {attr}")
        if isinstance(o, ExcV):
            if attr == "args":
                return o.args
            raise Unsupported(f"exception attribute {attr}")
        raise Unsupported(f"getattr({o!r}, {attr})")

    def setattr(self, o, attr, v):
        if isinstance(o, Obj):
            cls = o.cls
            if isinstance(cls, ClassV) and "__slots__" in cls.attrs and attr not in cls.attrs["__slots__"]:
                raise PyExc(self.make_exc("AttributeError", (attr,)))
            reg = self.run.region.get(o.ref, "local")
            if reg != "local":
                self.run.oblige(self.FRAME_NAMES.get(reg, "frame::no_write_caller_owned"), False,
                                props=("FRAME", "FRAME:" + reg), backend="frame",
                                info=f"attribute store {o.clsname}.{attr} on an object owned by '{reg}' at {self.run.site}")
            o.f[attr] = v
            return
        raise Unsupported(f"setattr on {o!r}")

    def unary(self, op, v):
        if isinstance(v, Sym):
            return self.scalar_unary(op, v)
        if isinstance(v, Arr):
            return self.lib_call("arr:unary", [op, v], {})
        raise Unsupported(f"unary {op} on {v!r}")

    def binop(self, op, a, b, inplace=False):
        if isinstance(a, Arr) or isinstance(b, Arr):
            return self.lib_call("arr:binop", [op, a, b, inplace], {})
        if isinstance(a, (Sym, int, float, bool)) and isinstance(b, (Sym, int, float, bool)):
            return self.scalar_binop(op, a, b)
        if isinstance(a, (list, tuple)) and isinstance(b, (list, tuple)) and op == "Add":
            return a + b
        if isinstance(a, (list, tuple)) and isinstance(b, Sym) or isinstance(b, (list, tuple)) and isinstance(a, Sym):
            # python list of scalars mixed with a symbolic scalar: numpy would broadcast (rHat + scalar*array)
            return self.lib_call("arr:binop", [op, a, b, inplace], {})
        if isinstance(a, (UserFn, Closure, LibFn, ClassV)) or isinstance(b, (UserFn, Closure, LibFn, ClassV)) \
                or a is None or b is None:
            raise PyExc(self.make_exc("TypeError", (f"unsupported operand type(s) for {op}: "
                                                    f"'{type(a).__name__}' and '{type(b).__name__}'",)))
        if isinstance(a, MODEL_NUM) or isinstance(b, MODEL_NUM):
            return self.lib_call("arr:binop", [op, a, b, inplace], {})
        raise Unsupported(f"binary {op} on {type(a).__name__}, {type(b).__name__} at {self.run.site}")

    def compare(self, op, a, b):
        if op in ("In", "NotIn"):
            r = self.contains(b, a)
            return r if op == "In" else self.not_(r)
        if type(a).__name__ in ("SymBytes", "TaskPrefix") or type(b).__name__ in ("SymBytes", "TaskPrefix"):
            return self.lib_call("bytes:compare", [op, a, b], {})
        if isinstance(a, Arr) or isinstance(b, Arr):
            return self.lib_call("arr:compare", [op, a, b], {})
        if isinstance(a, (Sym, int, float, bool)) and isinstance(b, (Sym, int, float, bool)):
            return self.scalar_compare(op, a, b)
        if op in ("Eq", "NotEq"):
            # equality between unrelated kinds (e.g. a user callable and a string tag)
            if isinstance(a, (UserFn, Closure, Obj, LibFn, ClassV)) or isinstance(b, (UserFn, Closure, Obj, LibFn, ClassV)):
                r = a is b
                return r if op == "Eq" else not r
            if a is None or b is None or isinstance(a, (str, bytes, tuple)) or isinstance(b, (str, bytes, tuple)):
                if isinstance(a, Sym) or isinstance(b, Sym):
                    return op == "NotEq"
                r = a == b
                return r if op == "Eq" else not r
        if op in ("Lt", "Gt", "LtE", "GtE") and (isinstance(a, (UserFn, Closure, Obj, LibFn, ClassV)) or a is None
                                                  or isinstance(b, (UserFn, Closure, Obj, LibFn, ClassV)) or b is None):
            raise PyExc(self.make_exc("TypeError", (f"'{op}' not supported between instances of "
                                                    f"'{type(a).__name__}' and '{type(b).__name__}'",)))
        raise Unsupported(f"comparison {op} on {type(a).__name__}, {type(b).__name__} at {self.run.site}")

    def contains(self, container, item):
        if isinstance(container, (tuple, list)):
            if isinstance(item, (UserFn, Closure, Obj, Arr, LibFn)):
                return any(item is c for c in container)
            if isinstance(item, Sym):
                raise Unsupported("membership test of a symbolic scalar")
            return item in container
        if isinstance(container, dict):
            return item in container
        raise Unsupported(f"membership test in {type(container).__name__}")

    def subscript(self, v, idx):
        if isinstance(v, Arr):
            return self.lib_call("arr:getitem", [v, idx], {})
        if isinstance(v, DequeV):
            return self.lib_call("deque:getitem", [v, idx], {})
        if isinstance(v, SymBytes):
            return self.lib_call("bytes:getitem", [v, idx], {})
        if type(v).__name__ == "ShapeV":
            return self.lib_call("shape:getitem", [v, idx], {})
        if isinstance(v, (tuple, list)):
            if isinstance(idx, Sym):
                raise Unsupported("symbolic index into a python sequence")
            if isinstance(idx, Arr):
                return self.lib_call("arr:getitem", [v, idx], {})
            try:
                return v[idx]
            except IndexError as e:
                raise PyExc(self.make_exc("IndexError", (str(e),)))
        if isinstance(v, dict):
            return v[idx]
        if isinstance(v, Obj) and v.cls == "OptimizeResult" and isinstance(idx, str):
            if idx not in v.f:
                raise PyExc(self.make_exc("KeyError", (idx,)))
            return v.f[idx]
        if isinstance(v, LibMethod) and v.name == "ndarray.flat":
            return self.lib_call("arr:getflat", [v.obj, idx], {})
        if isinstance(v, LibFn):
            return LibFn(v.name + "[]")         # typing.Deque[...] etc. in annotations-as-values
        raise Unsupported(f"subscript of {type(v).__name__} at {self.run.site}")

    def store_subscript(self, o, idx, v):
        if isinstance(o, Arr):
            return self.lib_call("arr:setitem", [o, idx, v], {})
        if isinstance(o, DequeV):
            return self.lib_call("deque:setitem", [o, idx, v], {})
        if isinstance(o, dict):
            o[idx] = v
            return
        if isinstance(o, Obj) and o.cls == "OptimizeResult" and isinstance(idx, str):
            return self.setattr(o, idx, v)
        if isinstance(o, list):
            o[idx] = v
            return
        if isinstance(o, LibMethod) and o.name == "ndarray.flat":
            return self.lib_call("arr:setflat", [o.obj, idx, v], {})
        raise Unsupported(f"subscript store into {type(o).__name__} at {self.run.site}")

    def iterate(self, v):
        if isinstance(v, Arr):
            return self.lib_call("arr:iter", [v], {})
        if isinstance(v, DequeV):
            c = self.run.heap[v.ref]
            if isinstance(c, list):
                return list(c)
            raise Unsupported("iteration over a symbolic-length deque")
        if isinstance(v, RangeV):
            raise Unsupported("iteration over a symbolic range outside a loop invariant")
        if type(v).__name__ == "ShapeV":
            return [self.lib_call("shape:getitem", [v, 0], {})]
        if isinstance(v, (tuple, list)):
            return list(v)
        raise Unsupported(f"iteration over {type(v).__name__}")


MODEL_NUM = (Sym, Arr)

SUBMODULES = {"np.linalg", "np.testing", "np.random", "sp.linalg", "sp.optimize", "sp.optimize._dcsrch",
              "sp.optimize.minpack2", "sp.sparse", "copy", "logging", "warnings", "np.typing"}
