"""AST interpreter for the Python subset `lbfgsb` is written in.

The same walker serves three uses:
  * symbolic execution (UF or fixed-shape real domain): model values (Sym, Arr, Obj, ...) are routed to a Domain;
  * concrete cross-check: all values are native python/numpy objects, library calls are executed natively, repository
    functions are still interpreted from their AST (validates the walker's control-flow/closure/exception semantics);
  * CAS execution (sympy scalars inside ND arrays) for closed forms of the benchmark functions.

What is dropped from the source: docstrings, annotations, decorators other than @property/@dataclass.
Anything outside the subset raises Unsupported (checker error), never silently skipped.
"""
import ast
import operator as _op
import os

from .values import (Closure, BoundMethod, ClassV, ReturnEx, BreakEx, ContinueEx, PyExc, Env, Unsupported,
                     PathEnd, MODEL_TYPES, is_model, NativeObj)

BINOPS = {"Add": _op.add, "Sub": _op.sub, "Mult": _op.mul, "Div": _op.truediv, "FloorDiv": _op.floordiv,
          "Mod": _op.mod, "Pow": _op.pow, "MatMult": _op.matmul, "BitAnd": _op.and_, "BitOr": _op.or_,
          "BitXor": _op.xor, "LShift": _op.lshift, "RShift": _op.rshift}
IBINOPS = {"Add": _op.iadd, "Sub": _op.isub, "Mult": _op.imul, "Div": _op.itruediv, "FloorDiv": _op.ifloordiv,
           "Mod": _op.imod, "Pow": _op.ipow, "MatMult": _op.imatmul, "BitAnd": _op.iand, "BitOr": _op.ior,
           "BitXor": _op.ixor}
CMPOPS = {"Lt": _op.lt, "Gt": _op.gt, "LtE": _op.le, "GtE": _op.ge, "Eq": _op.eq, "NotEq": _op.ne}

PURE_LOG_CALLS = {"len", "str", "repr", "int", "float", "abs", "min", "max", "round"}


class FnInfo:
    """Static facts about one FunctionDef: qualified name, loops in source order."""

    def __init__(self, node, qualname, module):
        self.node, self.qualname, self.module = node, qualname, module
        loops = []

        def walk(n):
            for c in ast.iter_child_nodes(n):
                if isinstance(c, (ast.FunctionDef, ast.ClassDef, ast.Lambda)):
                    continue
                if isinstance(c, (ast.While, ast.For)):
                    loops.append(c)
                walk(c)
        walk(node)
        loops.sort(key=lambda n: (n.lineno, n.col_offset))
        self.loops = loops

    def loop_ordinal(self, node):
        for i, l in enumerate(self.loops):
            if l is node:
                return i + 1
        raise Unsupported("loop not found in function")


class Program:
    """The repository package, parsed.  modules: short name -> (ast, path, source)."""

    def __init__(self, root, package="lbfgsb"):
        self.root, self.package = root, package
        self.modules = {}
        self.sha = {}
        pdir = os.path.join(root, package)
        import hashlib
        for fn in sorted(os.listdir(pdir)):
            if fn.endswith(".py"):
                path = os.path.join(pdir, fn)
                src = open(path).read()
                self.modules[fn[:-3]] = (ast.parse(src, filename=path), path, src)
                self.sha[f"{package}/{fn}"] = hashlib.sha256(src.encode()).hexdigest()

    def dead_store_ifs(self):
        """`if <compare of names/attributes>: self.a = <name>; ...` whose assigned attributes are read nowhere in
        the package except in the tests of such statements: removing them cannot change any observable value
        (dead-store elimination; e.g. ScalarFunction._lowest_x/_lowest_f).  Returns the set of id(node)."""
        if getattr(self, "_dead_ifs", None) is not None:
            return self._dead_ifs

        def simple(e):
            return isinstance(e, (ast.Name, ast.Constant)) or (isinstance(e, ast.Attribute) and simple(e.value))
        cands = []
        for name, (tree, _, _) in self.modules.items():
            for n in ast.walk(tree):
                if isinstance(n, ast.If) and not n.orelse and isinstance(n.test, ast.Compare) \
                        and simple(n.test.left) and all(simple(c) for c in n.test.comparators) \
                        and all(isinstance(st, ast.Assign) and len(st.targets) == 1
                                and isinstance(st.targets[0], ast.Attribute)
                                and isinstance(st.targets[0].value, ast.Name) and st.targets[0].value.id == "self"
                                and simple(st.value) for st in n.body):
                    cands.append(n)
        S = {st.targets[0].attr for n in cands for st in n.body}
        changed = True
        while changed:
            changed = False
            good = [n for n in cands if {st.targets[0].attr for st in n.body} <= S]
            in_tests = set()
            for n in good:
                for x in ast.walk(n.test):
                    in_tests.add(id(x))
            for name, (tree, _, _) in self.modules.items():
                for x in ast.walk(tree):
                    if isinstance(x, ast.Attribute) and isinstance(x.ctx, ast.Load) and x.attr in S \
                            and id(x) not in in_tests:
                        S.discard(x.attr)
                        changed = True
        self._dead_ifs = {id(n) for n in cands if {st.targets[0].attr for st in n.body} <= S and S}
        self.dead_attrs = S
        return self._dead_ifs

    def source_segment(self, modname, node):
        return ast.get_source_segment(self.modules[modname][2], node)


class Interp:
    def __init__(self, program, dom=None, native=False):
        self.program, self.dom, self.native = program, dom, native
        if dom is not None:
            dom.interp = self
        self.menvs = {}                # module short name -> Env
        self.loading = set()
        self.contracts = {}            # qualname -> fn(interp, clo, bound_args) replacing the body
        self.loops = {}                # (qualname, ordinal) -> LoopSpec
        self.observers = {}            # qualname -> fn(interp, phase, bound/ result)
        self.stack = []                # FnInfo stack
        self.fninfo = {}               # id(node) -> FnInfo
        self.call_depth = 0
        self.cur_stmt = None
        self.stmt_hook = None
        self.skipped_log_ifs = 0

    # ------------------------------------------------------------------ module loading
    def module_env(self, name):
        if name in self.menvs:
            return self.menvs[name]
        if name not in self.program.modules:
            raise Unsupported(f"unknown repository module {name}")
        tree = self.program.modules[name][0]
        env = Env(None)
        env.module = name
        self.menvs[name] = env
        self._install_builtins(env)
        for st in tree.body:
            self.exec_module_stmt(st, env, name)
        return env

    def _install_builtins(self, env):
        if self.native:
            import builtins
            env.builtins = builtins.__dict__
        else:
            env.builtins = self.dom.builtins()

    def exec_module_stmt(self, st, env, modname):
        if isinstance(st, ast.Expr) and isinstance(st.value, ast.Constant):
            return
        if isinstance(st, ast.Import):
            for a in st.names:
                if self.native:
                    import importlib
                    if a.asname:
                        env.set(a.asname, importlib.import_module(a.name))
                    else:
                        env.set(a.name.split(".")[0], importlib.import_module(a.name.split(".")[0]))
                        importlib.import_module(a.name)
                else:
                    env.set(a.asname or a.name.split(".")[0], self.dom.import_module(a.name, bool(a.asname)))
            return
        if isinstance(st, ast.ImportFrom):
            pkg = self.program.package
            mod = st.module or ""
            for a in st.names:
                local = a.asname or a.name
                if mod == pkg and a.name in self.program.modules:
                    env.set(local, ("repomodule", a.name))
                elif mod.startswith(pkg + ".") and mod[len(pkg) + 1:] in self.program.modules:
                    env.lazy[local] = (mod[len(pkg) + 1:], a.name)
                elif self.native:
                    import importlib
                    m = importlib.import_module(mod)
                    env.set(local, getattr(m, a.name))
                else:
                    env.set(local, self.dom.import_from(mod, a.name))
            return
        if isinstance(st, ast.FunctionDef):
            self.def_function(st, env, modname + "." + st.name, modname)
            return
        if isinstance(st, ast.ClassDef):
            self.def_class(st, env, modname)
            return
        if isinstance(st, (ast.Assign, ast.AnnAssign)):
            if isinstance(st, ast.AnnAssign) and st.value is None:
                return
            self.stack.append(FnInfo(ast.parse("pass"), modname + ".<module>", modname))
            try:
                self.exec_stmt(st, env)
            finally:
                self.stack.pop()
            return
        raise Unsupported(f"module-level statement {type(st).__name__} in {modname}")

    def def_function(self, node, env, qualname, modname):
        info = FnInfo(node, qualname, modname)
        self.fninfo[id(node)] = info
        clo = Closure(node, env, qualname, self)
        clo.info = info
        # defaults are evaluated at definition time (python semantics); mutable ones live in the Global region
        clo.defaults = None
        env.set(node.name, clo)
        return clo

    def def_class(self, node, env, modname):
        cls = ClassV(node.name, node, modname)
        cenv = Env(env)
        for st in node.body:
            if isinstance(st, ast.Expr) and isinstance(st.value, ast.Constant):
                continue
            if isinstance(st, ast.FunctionDef):
                info = FnInfo(st, f"{modname}.{node.name}.{st.name}", modname)
                self.fninfo[id(st)] = info
                clo = Closure(st, env, info.qualname, self)
                clo.info = info
                clo.defaults = None
                is_prop = any(isinstance(d, ast.Name) and d.id == "property" for d in st.decorator_list)
                (cls.props if is_prop else cls.methods)[st.name] = clo
            elif isinstance(st, ast.Assign):
                v = self.eval(st.value, cenv)
                for t in st.targets:
                    if not isinstance(t, ast.Name):
                        raise Unsupported("class-level target")
                    cls.attrs[t.id] = v
                    cenv.set(t.id, v)
            elif isinstance(st, ast.AnnAssign):
                if st.value is not None:
                    cls.attrs[st.target.id] = self.eval(st.value, cenv)
            elif isinstance(st, ast.Pass):
                pass
            else:
                raise Unsupported(f"class-level statement {type(st).__name__}")
        env.set(node.name, cls)
        return cls

    def lookup(self, dotted):
        """'main.minimize_lbfgsb' -> value in module env."""
        mod, name = dotted.split(".", 1)
        env = self.module_env(mod)
        v = env.get(name.split(".")[0])
        for part in name.split(".")[1:]:
            if isinstance(v, ClassV):
                v = v.methods.get(part) or v.props.get(part)
            else:
                raise Unsupported(f"lookup {dotted}")
        return v

    # ------------------------------------------------------------------ names
    def load_name(self, name, env):
        e = env
        while e is not None:
            if name in e.v:
                v = e.v[name]
                if isinstance(v, tuple) and len(v) == 2 and isinstance(v[0], str) and v[0] == "repomodule":
                    return NativeObj("repomodule", v[1])
                return v
            if e.lazy and name in e.lazy:
                mod, attr = e.lazy[name]
                v = self.module_env(mod).get(attr)
                e.v[name] = v
                return v
            last = e
            e = e.parent
        b = last.builtins
        if b is not None and name in b:
            return b[name]
        raise PyExc(self.make_exc("NameError", f"name '{name}' is not defined"))

    def make_exc(self, clsname, msg=""):
        if self.native:
            import builtins
            return getattr(builtins, clsname)(msg)
        return self.dom.make_exc(clsname, (msg,))

    # ------------------------------------------------------------------ expressions
    def eval(self, n, env):
        m = getattr(self, "e_" + type(n).__name__, None)
        if m is None:
            raise Unsupported(f"expression {type(n).__name__} at line {getattr(n, 'lineno', '?')}")
        return m(n, env)

    def e_Constant(self, n, env):
        return n.value

    def e_Name(self, n, env):
        return self.load_name(n.id, env)

    def e_Tuple(self, n, env):
        out = []
        for e in n.elts:
            if isinstance(e, ast.Starred):
                out.extend(self.iterate(self.eval(e.value, env)))
            else:
                out.append(self.eval(e, env))
        return tuple(out)

    def e_List(self, n, env):
        return list(self.e_Tuple(n, env))

    def e_Dict(self, n, env):
        d = {}
        for k, v in zip(n.keys, n.values):
            if k is None:
                d.update(self.eval(v, env))
            else:
                d[self.eval(k, env)] = self.eval(v, env)
        return d

    def e_JoinedStr(self, n, env):
        parts = []
        for v in n.values:
            if isinstance(v, ast.Constant):
                parts.append(str(v.value))
            else:
                val = self.eval(v.value, env)
                if self.native or not is_model(val):
                    try:
                        spec = self.eval(v.format_spec, env) if v.format_spec is not None else ""
                        parts.append(format(val, spec))
                    except Exception:
                        parts.append("<?>")
                else:
                    parts.append("<sym>")
        return "".join(parts)

    def e_FormattedValue(self, n, env):
        return self.eval(n.value, env)

    def e_Attribute(self, n, env):
        o = self.eval(n.value, env)
        return self.getattr(o, n.attr)

    def getattr(self, o, attr):
        if isinstance(o, NativeObj) and o.kind == "repomodule":
            return self.module_env(o.payload).get(attr)
        if isinstance(o, ClassV):
            if attr in o.attrs:
                return o.attrs[attr]
            if attr in o.methods:
                return o.methods[attr]
            raise PyExc(self.make_exc("AttributeError", attr))
        if self.dom is not None and is_model(o):
            return self.dom.getattr(o, attr)
        if isinstance(o, NativeObj):
            return o.getattr(self, attr)
        return getattr(o, attr)

    def e_Subscript(self, n, env):
        v = self.eval(n.value, env)
        idx = self.eval_index(n.slice, env)
        return self.subscript(v, idx)

    def eval_index(self, s, env):
        if isinstance(s, ast.Slice):
            return slice(self.eval(s.lower, env) if s.lower else None,
                         self.eval(s.upper, env) if s.upper else None,
                         self.eval(s.step, env) if s.step else None)
        if isinstance(s, ast.Tuple):
            return tuple(self.eval_index(e, env) for e in s.elts)
        return self.eval(s, env)

    def subscript(self, v, idx):
        if self.dom is not None and (is_model(v) or self._idx_model(idx)):
            return self.dom.subscript(v, idx)
        try:
            return v[idx]
        except (IndexError, KeyError, TypeError) as e:
            if self.native:
                raise
            raise PyExc(self.dom.make_exc(type(e).__name__, (str(e),)))

    def _idx_model(self, idx):
        if isinstance(idx, tuple):
            return any(self._idx_model(i) for i in idx)
        if isinstance(idx, slice):
            return any(is_model(i) for i in (idx.start, idx.stop, idx.step))
        return is_model(idx)

    def e_UnaryOp(self, n, env):
        v = self.eval(n.operand, env)
        op = type(n.op).__name__
        if op == "Not":
            return self.not_(v)
        if self.dom is not None and is_model(v):
            return self.dom.unary(op, v)
        return {"USub": _op.neg, "UAdd": _op.pos, "Invert": _op.invert}[op](v)

    def not_(self, v):
        if self.dom is not None and is_model(v):
            return self.dom.not_(v)
        return not v

    def truth(self, v):
        if self.dom is not None:
            return self.dom.truth(v)
        return bool(v)

    def e_BoolOp(self, n, env):
        # short-circuit evaluation; the value of the expression is only used as a truth value in this code base,
        # but python returns the deciding operand - we do the same for native values.
        is_and = isinstance(n.op, ast.And)
        v = None
        for e in n.values:
            v = self.eval(e, env)
            t = self.truth(v)
            if is_and and not t:
                return v if not is_model(v) else False
            if not is_and and t:
                return v if not is_model(v) else True
        return v if not is_model(v) else (True if is_and else False)

    def e_BinOp(self, n, env):
        a, b = self.eval(n.left, env), self.eval(n.right, env)
        return self.binop(type(n.op).__name__, a, b)

    def binop(self, op, a, b, inplace=False):
        if self.dom is not None and (is_model(a) or is_model(b)):
            return self.dom.binop(op, a, b, inplace)
        if inplace:
            return IBINOPS[op](a, b)
        return BINOPS[op](a, b)

    def e_Compare(self, n, env):
        left = self.eval(n.left, env)
        result = True
        for op, c in zip(n.ops, n.comparators):
            right = self.eval(c, env)
            r = self.compare(type(op).__name__, left, right)
            if len(n.ops) == 1:
                return r
            if not self.truth(r):
                return False
            left = right
        return result

    def compare(self, op, a, b):
        if op in ("Is", "IsNot"):
            r = self.identical(a, b)
            return r if op == "Is" else not r
        if self.dom is not None and (is_model(a) or is_model(b)):
            return self.dom.compare(op, a, b)
        if op == "In":
            return a in b
        if op == "NotIn":
            return a not in b
        return CMPOPS[op](a, b)

    def identical(self, a, b):
        if self.dom is not None:
            return self.dom.identical(a, b)
        return a is b

    def e_IfExp(self, n, env):
        if self.truth(self.eval(n.test, env)):
            return self.eval(n.body, env)
        return self.eval(n.orelse, env)

    def e_Starred(self, n, env):
        raise Unsupported("starred expression outside call/tuple")

    def e_ListComp(self, n, env):
        if len(n.generators) != 1:
            raise Unsupported("nested comprehension")
        g = n.generators[0]
        out = []
        cenv = Env(env)
        for item in self.iterate(self.eval(g.iter, env)):
            self.assign(g.target, item, cenv)
            if all(self.truth(self.eval(c, cenv)) for c in g.ifs):
                out.append(self.eval(n.elt, cenv))
        return out

    def e_GeneratorExp(self, n, env):
        """A lazy native generator over the interpreted element expression.  PEP 479: a StopIteration raised while the
        generator frame is running reaches the consumer as RuntimeError('generator raised StopIteration')."""
        if len(n.generators) != 1:
            raise Unsupported("nested generator expression")
        g = n.generators[0]
        items = self.iterate(self.eval(g.iter, env))     # the outermost iterable is evaluated eagerly (as in Python)
        interp = self

        def gen():
            cenv = Env(env)
            for item in items:
                try:
                    interp.assign(g.target, item, cenv)
                    if all(interp.truth(interp.eval(c, cenv)) for c in g.ifs):
                        value = interp.eval(n.elt, cenv)
                    else:
                        continue
                except PyExc as pe:
                    if interp.native:
                        if isinstance(pe.exc, StopIteration):
                            raise PyExc(RuntimeError("generator raised StopIteration"))
                        raise
                    from .domain import ExcClass
                    if interp.dom.exc_isinstance(pe.exc, ExcClass("StopIteration")):
                        raise PyExc(interp.dom.make_exc("RuntimeError", ("generator raised StopIteration",)))
                    raise
                yield value
        return gen()

    def e_Slice(self, n, env):
        return self.eval_index(n, env)

    def iterate(self, v):
        if self.dom is not None and is_model(v):
            return self.dom.iterate(v)
        return list(v)

    def e_Call(self, n, env):
        f = self.eval(n.func, env)
        args = []
        for a in n.args:
            if isinstance(a, ast.Starred):
                args.extend(self.iterate(self.eval(a.value, env)))
            else:
                args.append(self.eval(a, env))
        kw = {}
        for k in n.keywords:
            if k.arg is None:
                kw.update(self.eval(k.value, env))
            else:
                kw[k.arg] = self.eval(k.value, env)
        site = getattr(n, "lineno", None)
        return self.call(f, args, kw, site=site, node=n)

    # ------------------------------------------------------------------ calls
    def call(self, f, args, kw, site=None, node=None):
        if isinstance(f, Closure):
            return self.call_closure(f, args, kw, site)
        if isinstance(f, BoundMethod):
            return self.call_closure(f.fn, [f.obj] + list(args), kw, site)
        if isinstance(f, ClassV):
            return self.instantiate(f, args, kw, site)
        if self.dom is not None and is_model(f):
            return self.dom.call(f, args, kw, site)
        if isinstance(f, NativeObj):
            return f.call(self, args, kw)
        if self.dom is not None and any(is_model(a) for a in list(args) + list(kw.values())):
            return self.dom.call_native_with_models(f, args, kw, site)
        if self.dom is not None and not callable(f):
            raise PyExc(self.dom.make_exc("TypeError", (f"'{type(f).__name__}' object is not callable",)))
        return f(*args, **kw)

    def instantiate(self, cls, args, kw, site=None):
        if self.dom is not None:
            obj = self.dom.new_instance(cls)
        else:
            obj = NativeObj("instance", cls)
            obj.f = {}
        init = cls.methods.get("__init__")
        if init is not None:
            self.call_closure(init, [obj] + list(args), kw, site)
        elif args or kw:
            raise Unsupported(f"{cls.name}() takes no arguments")
        return obj

    def bind(self, clo, args, kw):
        node = clo.node
        a = node.args
        if a.posonlyargs:
            raise Unsupported("positional-only parameters")
        bound = {}
        params = [p.arg for p in a.args]
        if clo.defaults is None:
            self.eval_defaults(clo)
        dflt, kwdflt = clo.defaults
        args = list(args)
        kw = dict(kw)
        for i, p in enumerate(params):
            if i < len(args):
                if p in kw:
                    raise PyExc(self.make_exc("TypeError", f"multiple values for {p}"))
                bound[p] = args[i]
            elif p in kw:
                bound[p] = kw.pop(p)
            else:
                k = i - (len(params) - len(dflt))
                if k < 0:
                    raise PyExc(self.make_exc("TypeError", f"{clo.qualname}() missing argument {p}"))
                bound[p] = dflt[k]
        extra = args[len(params):]
        if a.vararg is not None:
            bound[a.vararg.arg] = tuple(extra)
        elif extra:
            raise PyExc(self.make_exc("TypeError", f"{clo.qualname}() takes {len(params)} positional arguments"))
        for p, d in zip(a.kwonlyargs, kwdflt):
            if p.arg in kw:
                bound[p.arg] = kw.pop(p.arg)
            elif d is not _MISSING:
                bound[p.arg] = d
            else:
                raise PyExc(self.make_exc("TypeError", f"{clo.qualname}() missing keyword-only argument {p.arg}"))
        if a.kwarg is not None:
            bound[a.kwarg.arg] = kw
        elif kw:
            raise PyExc(self.make_exc("TypeError", f"{clo.qualname}() got unexpected keyword {sorted(kw)}"))
        return bound

    def eval_defaults(self, clo):
        a = clo.node.args
        if self.dom is not None:
            dflt, kwdflt = self.dom.eval_defaults(self, clo)
        else:
            dflt = [self.eval(d, clo.env) for d in a.defaults]
            kwdflt = [self.eval(d, clo.env) if d is not None else _MISSING for d in a.kw_defaults]
        clo.defaults = (dflt, kwdflt)

    def call_closure(self, clo, args, kw, site=None):
        bound = self.bind(clo, args, kw)
        contract = self.contracts.get(clo.qualname)
        obs = self.observers.get(clo.qualname)
        if obs is not None:
            obs(self, "pre", clo, bound, None)
        if contract is not None:
            res = contract(self, clo, bound, site)
        else:
            res = self.run_body(clo, bound)
        if obs is not None:
            obs(self, "post", clo, bound, res)
        return res

    def run_body(self, clo, bound, start=0, env=None):
        if env is None:
            env = Env(clo.env)
            env.v.update(bound)
        self.stack.append(clo.info)
        self.call_depth += 1
        if self.call_depth > 60:
            raise Unsupported("call depth > 60 (recursion?)")
        try:
            self.exec_block(clo.node.body[start:], env)
        except ReturnEx as r:
            return r.v
        finally:
            self.stack.pop()
            self.call_depth -= 1
        return None

    # ------------------------------------------------------------------ statements
    def exec_block(self, body, env):
        for st in body:
            self.exec_stmt(st, env)

    def exec_stmt(self, n, env):
        m = getattr(self, "s_" + type(n).__name__, None)
        if m is None:
            raise Unsupported(f"statement {type(n).__name__} at line {n.lineno}")
        prev = self.cur_stmt
        self.cur_stmt = n
        if self.dom is not None:
            self.dom.at_stmt(n, self.stack[-1] if self.stack else None)
        try:
            m(n, env)
        finally:
            self.cur_stmt = prev

    def s_Expr(self, n, env):
        if isinstance(n.value, ast.Constant):
            return
        self.eval(n.value, env)

    def s_Pass(self, n, env):
        pass

    def s_Return(self, n, env):
        raise ReturnEx(self.eval(n.value, env) if n.value is not None else None)

    def s_Break(self, n, env):
        raise BreakEx()

    def s_Continue(self, n, env):
        raise ContinueEx()

    def s_FunctionDef(self, n, env):
        outer = self.stack[-1]
        self.def_function(n, env, outer.qualname + "." + n.name, outer.module)

    def s_Assert(self, n, env):
        if not self.truth(self.eval(n.test, env)):
            raise PyExc(self.make_exc("AssertionError", ""))

    def s_Raise(self, n, env):
        if n.exc is None:
            # bare `raise`: re-raise the exception being handled
            if not getattr(self, "handling", None):
                raise Unsupported("bare raise outside an except clause")
            cur = self.handling[-1]
            if self.native:
                raise cur
            raise PyExc(cur)
        v = self.eval(n.exc, env)
        cause = self.eval(n.cause, env) if n.cause is not None else None
        if self.native:
            if isinstance(v, type):
                v = v()
            if cause is not None:
                raise v from cause
            raise v
        v = self.dom.as_exception(v)
        if cause is not None:
            v.cause = cause
        raise PyExc(v)

    def is_logging_only(self, n):
        """`if <pure test>: logger.info(...)...` with no else: executed as 'no effect' without forking (A-LOG)."""
        if n.orelse:
            if not (len(n.orelse) == 1 and isinstance(n.orelse[0], ast.If) and self.is_logging_only(n.orelse[0])):
                return False
        for st in n.body:
            if isinstance(st, ast.If):
                if not self.is_logging_only(st):
                    return False
                continue
            if not (isinstance(st, ast.Expr) and isinstance(st.value, ast.Call)
                    and isinstance(st.value.func, ast.Attribute) and isinstance(st.value.func.value, ast.Name)
                    and st.value.func.value.id == "logger"):
                return False
            for a in st.value.args:
                if not self.is_pure_expr(a):
                    return False
        return self.is_pure_expr(n.test)

    def is_pure_expr(self, e):
        for x in ast.walk(e):
            if isinstance(x, ast.Call):
                f = x.func
                if isinstance(f, ast.Name) and f.id in PURE_LOG_CALLS:
                    continue
                if isinstance(f, ast.Attribute) and isinstance(f.value, ast.Attribute) \
                        and isinstance(f.value.value, ast.Name) and f.value.value.id == "np" \
                        and f.value.attr == "linalg" and f.attr == "norm":
                    continue
                if isinstance(f, ast.Name) and f.id == "projgr":
                    continue
                return False
            if isinstance(x, (ast.NamedExpr, ast.Await, ast.Yield, ast.YieldFrom, ast.Lambda)):
                return False
        return True

    def s_If(self, n, env):
        if self.dom is not None and self.dom.skip_logging and self.is_logging_only(n):
            self.skipped_log_ifs += 1
            return
        if self.dom is not None and self.dom.skip_dead_stores and id(n) in self.program.dead_store_ifs():
            return
        if self.truth(self.eval(n.test, env)):
            self.exec_block(n.body, env)
        else:
            self.exec_block(n.orelse, env)

    def assign(self, tgt, v, env):
        if isinstance(tgt, ast.Name):
            env.set(tgt.id, v)
        elif isinstance(tgt, ast.Attribute):
            o = self.eval(tgt.value, env)
            self.setattr(o, tgt.attr, v)
        elif isinstance(tgt, ast.Subscript):
            o = self.eval(tgt.value, env)
            idx = self.eval_index(tgt.slice, env)
            self.store_subscript(o, idx, v)
        elif isinstance(tgt, (ast.Tuple, ast.List)):
            items = self.iterate(v)
            if len(items) != len(tgt.elts):
                raise PyExc(self.make_exc("ValueError", "unpack length mismatch"))
            for t, vi in zip(tgt.elts, items):
                self.assign(t, vi, env)
        else:
            raise Unsupported(f"assignment target {type(tgt).__name__}")

    def setattr(self, o, attr, v):
        if self.dom is not None and is_model(o):
            return self.dom.setattr(o, attr, v)
        if isinstance(o, NativeObj):
            return o.setattr(self, attr, v)
        setattr(o, attr, v)

    def store_subscript(self, o, idx, v):
        if self.dom is not None and (is_model(o) or self._idx_model(idx) or is_model(v)):
            return self.dom.store_subscript(o, idx, v)
        o[idx] = v

    def s_Assign(self, n, env):
        v = self.eval(n.value, env)
        for t in n.targets:
            self.assign(t, v, env)

    def s_AnnAssign(self, n, env):
        if n.value is not None:
            self.assign(n.target, self.eval(n.value, env), env)

    def s_AugAssign(self, n, env):
        t = n.target
        op = type(n.op).__name__
        if isinstance(t, ast.Name):
            cur = self.load_name(t.id, env)
            new = self.binop(op, cur, self.eval(n.value, env), inplace=True)
            env.set(t.id, new)
        elif isinstance(t, ast.Attribute):
            o = self.eval(t.value, env)
            cur = self.getattr(o, t.attr)
            new = self.binop(op, cur, self.eval(n.value, env), inplace=True)
            self.setattr(o, t.attr, new)
        elif isinstance(t, ast.Subscript):
            o = self.eval(t.value, env)
            idx = self.eval_index(t.slice, env)
            cur = self.subscript(o, idx)
            new = self.binop(op, cur, self.eval(n.value, env), inplace=True)
            self.store_subscript(o, idx, new)
        else:
            raise Unsupported("augmented assignment target")

    def s_With(self, n, env):
        mgrs = []
        for item in n.items:
            cm = self.eval(item.context_expr, env)
            if self.native or not is_model(cm):
                val = cm.__enter__()
            else:
                val = self.dom.ctx_enter(cm)
            mgrs.append(cm)
            if item.optional_vars is not None:
                self.assign(item.optional_vars, val, env)
        try:
            self.exec_block(n.body, env)
        finally:
            for cm in reversed(mgrs):
                if self.native or not is_model(cm):
                    cm.__exit__(None, None, None)
                else:
                    self.dom.ctx_exit(cm)

    def exc_matches(self, exc, htype, env):
        if htype is None:
            return True
        t = self.eval(htype, env)
        types = t if isinstance(t, tuple) else (t,)
        if self.native:
            return isinstance(exc, tuple(types))
        for ty in types:
            if self.dom.exc_isinstance(exc, ty):
                return True
        return False

    def s_Try(self, n, env):
        if n.finalbody:
            raise Unsupported("try/finally")
        try:
            self.exec_block(n.body, env)
        except PyExc as pe:
            exc = pe.exc
            for h in n.handlers:
                if self.exc_matches(exc, h.type, env):
                    if h.name:
                        env.set(h.name, exc)
                    if self.dom is not None:
                        self.dom.on_caught(exc, h, self.stack[-1] if self.stack else None)
                    if not hasattr(self, "handling"):
                        self.handling = []
                    self.handling.append(exc)
                    try:
                        self.exec_block(h.body, env)
                    finally:
                        self.handling.pop()
                    return
            raise
        except (ReturnEx, BreakEx, ContinueEx, PathEnd, Unsupported):
            raise
        except Exception as exc:
            if not self.native:
                raise
            for h in n.handlers:
                if self.exc_matches(exc, h.type, env):
                    if h.name:
                        env.set(h.name, exc)
                    if not hasattr(self, "handling"):
                        self.handling = []
                    self.handling.append(exc)
                    try:
                        self.exec_block(h.body, env)
                    finally:
                        self.handling.pop()
                    return
            raise
        else:
            self.exec_block(n.orelse, env)

    # loops -----------------------------------------------------------
    def loop_spec(self, n):
        info = self.stack[-1]
        if id(info.node) not in self.fninfo and not info.loops:
            return None, info, 0
        k = info.loop_ordinal(n)
        return self.loops.get((info.qualname, k)), info, k

    def s_While(self, n, env):
        spec, info, k = self.loop_spec(n)
        if spec is not None and spec.kind == "cut":
            return spec.run_while(self, n, env, info, k)
        bound = spec.bound if spec is not None else None
        count = 0
        while True:
            if not self.truth(self.eval(n.test, env)):
                self.exec_block(n.orelse, env)
                return
            if bound is not None and count >= bound:
                # unwinding obligation: the guard must be false after `bound` unrollings
                self.dom.unwinding_failed(info, k, bound)
                raise PathEnd()
            if bound is None and self.dom is not None and not self.dom.allow_unbounded_loops:
                raise Unsupported(f"loop#{k} of {info.qualname} has neither invariant nor unrolling bound")
            try:
                self.exec_block(n.body, env)
            except BreakEx:
                return
            except ContinueEx:
                pass
            count += 1

    def s_For(self, n, env):
        spec, info, k = self.loop_spec(n)
        it = self.eval(n.iter, env)
        if spec is not None and spec.kind == "cut":
            return spec.run_for(self, n, env, info, k, it)
        items = self.iterate(it)
        for item in items:
            self.assign(n.target, item, env)
            try:
                self.exec_block(n.body, env)
            except BreakEx:
                return
            except ContinueEx:
                continue
        self.exec_block(n.orelse, env)


class _Missing:
    def __repr__(self):
        return "<missing>"


_MISSING = _Missing()
