"""Fixed-shape array domain: numpy semantics on ND values (concrete shape, scalar entries).

Entries are python numbers / bools, z3 terms (run.mode == 'real': real arithmetic, A-REAL: machine floats treated as
mathematical reals) or sympy expressions (run.mode == 'cas').  Boolean masks with symbolic entries are decided
entry by entry by forking; every loop over an axis has a concrete trip count.
"""
import z3

from .values import PyExc, Unsupported, is_model
from .sym import Sym, Arr, ND, MatTerm, INF, zreal, zbool, wrap

# ------------------------------------------------------------------------------------------------ scalars


def S(dom, v):
    """raw entry -> interpreter-level scalar"""
    if z3.is_expr(v):
        return wrap(v)
    return v


def N(v):
    """interpreter-level scalar -> raw entry"""
    return v.e if isinstance(v, Sym) else v


def is_cas(dom):
    return dom.run.mode == "cas"


def sop(dom, op, a, b):
    """scalar binary operation on raw entries"""
    if is_cas(dom):
        import sympy
        from .interp import BINOPS

        def conv(v):
            if isinstance(v, bool):
                return v
            if isinstance(v, float):
                if v.is_integer():
                    return sympy.Integer(int(v))
                return sympy.Rational(str(v)) if len(repr(v)) < 12 else sympy.Rational(v)
            return v
        a, b = conv(a), conv(b)
        if op == "Div":
            return sympy.sympify(a) / sympy.sympify(b)
        return BINOPS[op](a, b)
    return N(dom.scalar_binop(op, S(dom, a), S(dom, b)))


def scmp(dom, op, a, b):
    if is_cas(dom):
        raise Unsupported("comparison of symbolic (CAS) values")
    return N(dom.scalar_compare(op, S(dom, a), S(dom, b)))


def sneg(dom, a):
    if is_cas(dom):
        return -a
    return N(dom.scalar_unary("USub", S(dom, a)))


def sfun(dom, name, a):
    if is_cas(dom):
        import sympy
        f = {"np.sqrt": sympy.sqrt, "np.exp": sympy.exp, "np.cos": sympy.cos, "np.sin": sympy.sin,
             "np.abs": sympy.Abs, "np.square": lambda v: v * v}[name]
        if isinstance(a, float):
            a = sympy.Rational(str(a))
        return f(a)
    if name == "np.square":
        return sop(dom, "Mult", a, a)
    if name == "np.sqrt":
        return N(dom.real_sqrt(S(dom, a)))
    if name == "np.abs":
        if not z3.is_expr(a):
            return abs(a)
        return z3.If(a >= 0, a, -a)
    if not z3.is_expr(a):
        import math
        return {"np.exp": math.exp, "np.cos": math.cos, "np.sin": math.sin}[name](a)
    raise Unsupported(f"{name} of a symbolic real")


def truth(dom, v):
    """decide a raw boolean entry (forks when symbolic)"""
    if isinstance(v, bool):
        return v
    if z3.is_expr(v):
        return dom.run.branch(v)
    return bool(v)


# ------------------------------------------------------------------------------------------------ helpers
def as_nd(dom, v):
    if isinstance(v, Arr):
        c = dom.run.heap[v.ref]
        if isinstance(c, ND):
            return c
        raise Unsupported("opaque array in a fixed-shape operation")
    if isinstance(v, ND):
        return v
    if isinstance(v, (list, tuple)):
        if v and all(isinstance(e, Arr) for e in v):
            rows = [as_nd(dom, e) for e in v]
            return ND((len(rows),) + rows[0].shape, [x for r in rows for x in r.flat])
        if v and all(isinstance(e, (list, tuple)) for e in v):
            return ND((len(v), len(v[0])), [N(x) for r in v for x in r])
        return ND((len(v),), [N(e) for e in v])
    return None


def out(dom, nd):
    return dom.run.alloc(nd)


def broadcast(dom, op, a, b, f):
    na, nb = as_nd(dom, a), as_nd(dom, b)
    if na is None and nb is None:
        raise Unsupported("broadcast of two scalars")
    if na is None:
        sa = N(a)
        return ND(nb.shape, [f(sa, y) for y in nb.flat])
    if nb is None:
        sb = N(b)
        return ND(na.shape, [f(x, sb) for x in na.flat])
    if na.shape == nb.shape:
        return ND(na.shape, [f(x, y) for x, y in zip(na.flat, nb.flat)])
    # (r,k) with (k,)  /  (k,) with (r,k)  /  (r,1) with (r,k) ...
    if na.ndim == 2 and nb.ndim == 1 and na.shape[1] == nb.shape[0]:
        r, k = na.shape
        return ND(na.shape, [f(na.flat[i * k + j], nb.flat[j]) for i in range(r) for j in range(k)])
    if na.ndim == 1 and nb.ndim == 2 and nb.shape[1] == na.shape[0]:
        r, k = nb.shape
        return ND(nb.shape, [f(na.flat[j], nb.flat[i * k + j]) for i in range(r) for j in range(k)])
    if na.ndim == 2 and nb.ndim == 2 and nb.shape == (na.shape[0], 1):
        r, k = na.shape
        return ND(na.shape, [f(na.flat[i * k + j], nb.flat[i]) for i in range(r) for j in range(k)])
    if len(na.flat) == 1:
        return ND(nb.shape, [f(na.flat[0], y) for y in nb.flat])
    if len(nb.flat) == 1:
        return ND(na.shape, [f(x, nb.flat[0]) for x in na.flat])
    raise Unsupported(f"broadcast of shapes {na.shape} and {nb.shape} ({op})")


def ssum(dom, items):
    acc = 0
    first = True
    for v in items:
        acc = v if first else sop(dom, "Add", acc, v)
        first = False
    return acc if not first else 0.0


def matmul(dom, a, b):
    na, nb = as_nd(dom, a), as_nd(dom, b)
    mul = lambda x, y: sop(dom, "Mult", x, y)    # noqa: E731
    if na.ndim == 1 and nb.ndim == 1:
        if na.shape != nb.shape:
            raise PyExc(dom.make_exc("ValueError", ("matmul: shape mismatch",)))
        return ssum(dom, [mul(x, y) for x, y in zip(na.flat, nb.flat)])
    if na.ndim == 2 and nb.ndim == 1:
        r, k = na.shape
        if k != nb.shape[0]:
            raise PyExc(dom.make_exc("ValueError", (f"matmul: shapes {na.shape} {nb.shape}",)))
        return ND((r,), [ssum(dom, [mul(na.flat[i * k + j], nb.flat[j]) for j in range(k)]) for i in range(r)])
    if na.ndim == 1 and nb.ndim == 2:
        r, k = nb.shape
        if r != na.shape[0]:
            raise PyExc(dom.make_exc("ValueError", (f"matmul: shapes {na.shape} {nb.shape}",)))
        return ND((k,), [ssum(dom, [mul(na.flat[i], nb.flat[i * k + j]) for i in range(r)]) for j in range(k)])
    if na.ndim == 2 and nb.ndim == 2:
        r, k = na.shape
        k2, c = nb.shape
        if k != k2:
            raise PyExc(dom.make_exc("ValueError", (f"matmul: shapes {na.shape} {nb.shape}",)))
        return ND((r, c), [ssum(dom, [mul(na.flat[i * k + t], nb.flat[t * c + j]) for t in range(k)])
                           for i in range(r) for j in range(c)])
    raise Unsupported("matmul ranks")


# ------------------------------------------------------------------------------------------------ operators
def binop(dom, op, a, b, inplace):
    if op == "MatMult":
        r = matmul(dom, a, b)
        return out(dom, r) if isinstance(r, ND) else S(dom, r)
    if op in ("BitAnd", "BitOr"):
        f = (lambda x, y: _band(x, y)) if op == "BitAnd" else (lambda x, y: _bor(x, y))
    else:
        f = lambda x, y: sop(dom, op, x, y)     # noqa: E731
    res = broadcast(dom, op, a, b, f)
    if inplace and isinstance(a, Arr):
        cur = dom.run.heap[a.ref]
        if isinstance(cur, ND) and cur.shape == res.shape:
            dom.check_write(a.ref, f"augmented assignment ({op})")
            dom.run.heap[a.ref] = res
            return a
    return out(dom, res)


def _band(x, y):
    if isinstance(x, bool) and isinstance(y, bool):
        return x and y
    return z3.simplify(z3.And(zbool(x), zbool(y)))


def _bor(x, y):
    if isinstance(x, bool) and isinstance(y, bool):
        return x or y
    return z3.simplify(z3.Or(zbool(x), zbool(y)))


def unary(dom, op, a):
    nd = as_nd(dom, a)
    if op == "USub":
        return out(dom, ND(nd.shape, [sneg(dom, x) for x in nd.flat]))
    if op == "Invert":
        return out(dom, ND(nd.shape, [(not x) if isinstance(x, bool) else z3.simplify(z3.Not(zbool(x)))
                                      for x in nd.flat]))
    if op == "UAdd":
        return a
    raise Unsupported(f"unary {op}")


def compare(dom, op, a, b):
    return out(dom, broadcast(dom, op, a, b, lambda x, y: scmp(dom, op, x, y)))


def clip(dom, x, lo, hi):
    def c1(v, l, h):
        if not z3.is_expr(v) and not z3.is_expr(l) and not z3.is_expr(h):
            return min(max(v, l), h)
        r = v
        if not (isinstance(l, float) and l == -INF):
            below = scmp(dom, "Lt", r, l)
            r = l if below is True else r if below is False else z3.If(below, zreal(l), zreal(r))
        if not (isinstance(h, float) and h == INF):
            above = scmp(dom, "Gt", r, h)
            r = h if above is True else r if above is False else z3.If(above, zreal(h), zreal(r))
        return r
    nx = as_nd(dom, x)
    nl, nh = as_nd(dom, lo), as_nd(dom, hi)
    ls = nl.flat if nl is not None else [N(lo)] * len(nx.flat)
    hs = nh.flat if nh is not None else [N(hi)] * len(nx.flat)
    if len(ls) != len(nx.flat) and nx.ndim == 2:
        ls = ls * nx.shape[0]
        hs = hs * nx.shape[0]
    return out(dom, ND(nx.shape, [c1(v, l, h) for v, l, h in zip(nx.flat, ls, hs)]))


def dot(dom, a, b):
    r = matmul(dom, a, b)
    return out(dom, r) if isinstance(r, ND) else S(dom, r)


def isinf(dom, a):
    nd = as_nd(dom, a)
    if nd is None:
        return isinstance(a, float) and a in (INF, -INF)
    return out(dom, ND(nd.shape, [isinstance(x, float) and x in (INF, -INF) for x in nd.flat]))


def isfinite(dom, a):
    nd = as_nd(dom, a)
    if nd is None:
        v = N(a)
        return not (isinstance(v, float) and (v in (INF, -INF) or v != v))
    return out(dom, ND(nd.shape, [not (isinstance(x, float) and (x in (INF, -INF) or x != x)) for x in nd.flat]))


def nonzero(dom, a):
    nd = as_nd(dom, a)
    if nd.ndim != 1:
        raise Unsupported("nonzero of a matrix")
    idx = [i for i, x in enumerate(nd.flat) if truth(dom, x)]
    return (out(dom, ND((len(idx),), idx)),)


def fill_diagonal(dom, a, v):
    nd = as_nd(dom, a)
    dom.check_write(a.ref, "fill_diagonal")
    r, k = nd.shape
    vals = as_nd(dom, v)
    flat = list(nd.flat)
    for i in range(min(r, k)):
        flat[i * k + i] = vals.flat[i] if vals is not None else N(v)
    dom.run.heap[a.ref] = ND(nd.shape, flat)
    return None


def setflat(dom, a, idx, v):
    nd = as_nd(dom, a)
    dom.check_write(a.ref, "flat store")
    flat = list(nd.flat)
    pos = list(range(len(flat)))[idx]
    vals = as_nd(dom, v)
    for j, p in enumerate(pos):
        flat[p] = vals.flat[j] if vals is not None else N(v)
    dom.run.heap[a.ref] = ND(nd.shape, flat)
    return None


def getflat(dom, a, idx):
    """a.flat[idx] for a concrete int / slice: a scalar or a 1-D copy"""
    nd = as_nd(dom, a)
    flat = list(nd.flat)
    if isinstance(idx, int):
        if idx < -len(flat) or idx >= len(flat):
            raise PyExc(dom.make_exc("IndexError", ("index out of bounds",)))
        return S(dom, flat[idx])
    if isinstance(idx, slice) and all(isinstance(t, (int, type(None))) for t in (idx.start, idx.stop, idx.step)):
        sel = flat[idx]
        return out(dom, ND((len(sel),), sel))
    raise Unsupported("ndarray.flat subscript")


def iter_rows(dom, a):
    nd = as_nd(dom, a)
    if nd.ndim == 1:
        return [S(dom, x) for x in nd.flat]
    r, k = nd.shape
    return [out(dom, ND((k,), nd.flat[i * k:(i + 1) * k])) for i in range(r)]


# ------------------------------------------------------------------------------------------------ indexing
def _index_list(dom, idx, n):
    """index expression along one axis of length n -> (list of positions, is_scalar)"""
    if isinstance(idx, bool):
        raise Unsupported("boolean scalar index")
    if isinstance(idx, int):
        if idx < -n or idx >= n:
            raise PyExc(dom.make_exc("IndexError", (f"index {idx} is out of bounds for axis with size {n}",)))
        return [idx % n], True
    if isinstance(idx, Sym):
        raise Unsupported("symbolic integer index into a fixed-shape array")
    if isinstance(idx, slice):
        return list(range(n))[idx], False
    nd = as_nd(dom, idx)
    if nd is not None:
        if nd.flat and all(isinstance(x, bool) or z3.is_bool(x) if z3.is_expr(x) else isinstance(x, bool)
                           for x in nd.flat):
            if len(nd.flat) != n:
                raise PyExc(dom.make_exc("IndexError", ("boolean index did not match",)))
            return [i for i, x in enumerate(nd.flat) if truth(dom, x)], False
        pos = []
        for x in nd.flat:
            if not isinstance(x, int):
                raise Unsupported("non-integer index array")
            if x < -n or x >= n:
                raise PyExc(dom.make_exc("IndexError", (f"index {x} is out of bounds for axis with size {n}",)))
            pos.append(x % n)
        return pos, False
    raise Unsupported(f"index {idx!r}")


def getitem(dom, a, idx):
    nd = as_nd(dom, a)
    if nd.ndim == 1:
        if isinstance(idx, tuple):
            raise Unsupported("tuple index into a vector")
        pos, scalar = _index_list(dom, idx, nd.shape[0])
        if scalar:
            return S(dom, nd.flat[pos[0]])
        return out(dom, ND((len(pos),), [nd.flat[p] for p in pos]))
    r, k = nd.shape
    if not isinstance(idx, tuple):
        pos, scalar = _index_list(dom, idx, r)
        if scalar:
            return out(dom, ND((k,), nd.flat[pos[0] * k:(pos[0] + 1) * k]))
        return out(dom, ND((len(pos), k), [nd.flat[p * k + j] for p in pos for j in range(k)]))
    ri, ci = idx
    rp, rs = _index_list(dom, ri, r)
    cp, cs = _index_list(dom, ci, k)
    if rs and cs:
        return S(dom, nd.flat[rp[0] * k + cp[0]])
    if rs:
        return out(dom, ND((len(cp),), [nd.flat[rp[0] * k + j] for j in cp]))
    if cs:
        return out(dom, ND((len(rp),), [nd.flat[i * k + cp[0]] for i in rp]))
    if not isinstance(ri, slice) and not isinstance(ci, slice):
        # two index arrays: paired (fancy) indexing
        if len(rp) != len(cp):
            raise Unsupported("fancy index arrays of different length")
        return out(dom, ND((len(rp),), [nd.flat[i * k + j] for i, j in zip(rp, cp)]))
    return out(dom, ND((len(rp), len(cp)), [nd.flat[i * k + j] for i in rp for j in cp]))


def setitem(dom, a, idx, v):
    nd = as_nd(dom, a)
    dom.check_write(a.ref, "subscript store")
    flat = list(nd.flat)
    vals = as_nd(dom, v)
    if nd.ndim == 1:
        pos, scalar = _index_list(dom, idx, nd.shape[0])
        if vals is not None and len(vals.flat) != len(pos) and len(vals.flat) != 1:
            raise PyExc(dom.make_exc("ValueError", ("shape mismatch in assignment",)))
        for j, p in enumerate(pos):
            flat[p] = (vals.flat[j] if len(vals.flat) > 1 else vals.flat[0]) if vals is not None else N(v)
    else:
        r, k = nd.shape
        if isinstance(idx, tuple):
            rp, rs = _index_list(dom, idx[0], r)
            cp, cs = _index_list(dom, idx[1], k)
            if not isinstance(idx[0], (slice, int)) and not isinstance(idx[1], (slice, int)):
                cells = [(i, j) for i, j in zip(rp, cp)]
            else:
                cells = [(i, j) for i in rp for j in cp]
        else:
            rp, rs = _index_list(dom, idx, r)
            cells = [(i, j) for i in rp for j in range(k)]
        if vals is not None and len(vals.flat) not in (1, len(cells)):
            raise PyExc(dom.make_exc("ValueError", ("shape mismatch in assignment",)))
        for t, (i, j) in enumerate(cells):
            flat[i * k + j] = (vals.flat[t] if len(vals.flat) > 1 else vals.flat[0]) if vals is not None else N(v)
    dom.run.heap[a.ref] = ND(nd.shape, flat)
    return None


# ------------------------------------------------------------------------------------------------ functions
def smin(dom, items, is_min=True):
    items = list(items)
    if not items:
        raise PyExc(dom.make_exc("ValueError", ("zero-size array to reduction operation",)))
    best = items[0]
    for x in items[1:]:
        c = scmp(dom, "Lt" if is_min else "Gt", x, best)
        if isinstance(c, bool):
            best = x if c else best
        elif any(isinstance(v, float) and v in (INF, -INF) for v in (x, best)):
            best = x if dom.run.branch(c) else best
        else:
            best = z3.If(c, zreal(x), zreal(best))
    return best


def call(dom, name, args, kw):
    a0 = args[0] if args else None
    nd = as_nd(dom, a0) if a0 is not None else None
    if name in ("np.sqrt", "np.exp", "np.cos", "np.sin", "np.abs", "np.square"):
        if nd is None:
            return S(dom, sfun(dom, name, N(a0)))
        return out(dom, ND(nd.shape, [sfun(dom, name, x) for x in nd.flat]))
    if name == "np.power":
        e = args[1]
        return binop(dom, "Pow", a0, e, False)
    if name in ("np.sum", "np.prod", "np.max", "np.min", "np.nanmin"):
        if nd is None:
            return a0                   # reduction of a scalar
        if kw.get("axis") is not None:
            raise Unsupported(f"{name} with axis")
        if name == "np.sum":
            return S(dom, ssum(dom, nd.flat))
        if name == "np.prod":
            acc = 1
            for x in nd.flat:
                acc = sop(dom, "Mult", acc, x)
            return S(dom, acc)
        return S(dom, smin(dom, nd.flat, is_min=name != "np.max"))
    if name == "np.where":
        c, x, y = args
        cn = as_nd(dom, c)
        xn, yn = as_nd(dom, x), as_nd(dom, y)
        res = []
        for i, cv in enumerate(cn.flat):
            xv = xn.flat[i] if xn is not None else N(x)
            yv = yn.flat[i] if yn is not None else N(y)
            res.append(xv if truth(dom, cv) else yv)
        return out(dom, ND(cn.shape, res))
    if name in ("np.hstack", "np.vstack"):
        parts = [as_nd(dom, p) for p in a0]
        if name == "np.hstack":
            if all(p.ndim == 1 for p in parts):
                return out(dom, ND((sum(p.shape[0] for p in parts),), [x for p in parts for x in p.flat]))
            r = parts[0].shape[0]
            rows = []
            for i in range(r):
                for p in parts:
                    k = p.shape[1]
                    rows.extend(p.flat[i * k:(i + 1) * k])
            return out(dom, ND((r, sum(p.shape[1] for p in parts)), rows))
        parts = [p if p.ndim == 2 else ND((1,) + p.shape, p.flat) for p in parts]
        k = parts[0].shape[1]
        if any(p.shape[1] != k for p in parts):
            raise PyExc(dom.make_exc("ValueError", ("vstack: column mismatch",)))
        return out(dom, ND((sum(p.shape[0] for p in parts), k), [x for p in parts for x in p.flat]))
    if name == "np.diag":
        if nd.ndim == 2:
            r, k = nd.shape
            return out(dom, ND((min(r, k),), [nd.flat[i * k + i] for i in range(min(r, k))]))
        n = nd.shape[0]
        return out(dom, ND((n, n), [nd.flat[i] if i == j else 0.0 for i in range(n) for j in range(n)]))
    if name == "np.tril":
        kk = args[1] if len(args) > 1 else kw.get("k", 0)
        r, k = nd.shape
        return out(dom, ND(nd.shape, [nd.flat[i * k + j] if j - i <= kk else 0.0 for i in range(r) for j in range(k)]))
    if name == "np.cumsum":
        axis = kw.get("axis", args[1] if len(args) > 1 else None)
        if nd.ndim == 1:
            acc, res = None, []
            for x in nd.flat:
                acc = x if acc is None else sop(dom, "Add", acc, x)
                res.append(acc)
            return out(dom, ND(nd.shape, res))
        if axis != 0:
            raise Unsupported("cumsum axis")
        r, k = nd.shape
        res = list(nd.flat)
        for i in range(1, r):
            for j in range(k):
                res[i * k + j] = sop(dom, "Add", res[(i - 1) * k + j], nd.flat[i * k + j])
        return out(dom, ND(nd.shape, res))
    if name == "np.argsort":
        # any permutation with non-decreasing keys; ties: the stable order (numpy's default kind is deterministic)
        order = []
        for i in range(len(nd.flat)):
            pos = len(order)
            for k2, j in enumerate(order):
                if truth(dom, scmp(dom, "Lt", nd.flat[i], nd.flat[j])):
                    pos = k2
                    break
            order.insert(pos, i)
        return out(dom, ND((len(order),), order))
    if name == "np.squeeze":
        return out(dom, ND(tuple(k for k in nd.shape if k != 1), list(nd.flat)))
    if name in ("np.ravel", "np.atleast_1d"):
        return out(dom, ND((len(nd.flat),), list(nd.flat)))
    if name == "np.unique":
        # sorted distinct values (+ index of the first occurrence); ties decided by forking on equality
        if nd.ndim != 1:
            raise Unsupported("np.unique of a matrix")
        order = []
        for i in range(len(nd.flat)):
            pos = len(order)
            for k2, j in enumerate(order):
                if truth(dom, scmp(dom, "Lt", nd.flat[i], nd.flat[j])):
                    pos = k2
                    break
            order.insert(pos, i)
        vals, idxs = [], []
        for i in order:
            if vals and truth(dom, scmp(dom, "Eq", nd.flat[i], vals[-1])):
                idxs[-1] = min(idxs[-1], i)
                continue
            vals.append(nd.flat[i])
            idxs.append(i)
        res = [out(dom, ND((len(vals),), vals))]
        if kw.get("return_index"):
            res.append(out(dom, ND((len(idxs),), idxs)))
        if kw.get("return_inverse") or kw.get("return_counts"):
            raise Unsupported("np.unique(return_inverse/return_counts)")
        return tuple(res) if len(res) > 1 else res[0]
    if name == "np.linalg.norm":
        ordv = args[1] if len(args) > 1 else kw.get("ord")
        if ordv is None:
            return S(dom, sfun(dom, "np.sqrt", ssum(dom, [sop(dom, "Mult", x, x) for x in nd.flat])))
        if ordv == INF:
            return S(dom, smin(dom, [sfun(dom, "np.abs", x) for x in nd.flat], is_min=False))
        raise Unsupported("norm order")
    if name == "np.transpose":
        from .lib import LIB
        return LIB["arrattr:T"](dom, a0)
    if name in ("np.identity", "np.eye"):
        n = a0 if a0 is not None else kw.get("n")
        return out(dom, ND((n, n), [1.0 if i == j else 0.0 for i in range(n) for j in range(n)]))
    if name == "np.arange":
        vals = list(range(*[int(v) for v in args]))
        return out(dom, ND((len(vals),), vals))
    if name == "np.isin":
        b = as_nd(dom, args[1])
        return out(dom, ND(nd.shape, [any(x == y for y in b.flat) for x in nd.flat]))
    if name == "sp.linalg.solve_triangular":
        return solve_triangular(dom, a0, args[1], kw)
    if name == "sp.linalg.cholesky":
        return cholesky(dom, a0, kw)
    if name == "np.linalg.solve":
        return lin_solve(dom, a0, args[1])
    raise Unsupported(f"fixed-shape model of {name}")


def solve_triangular(dom, T, v, kw):
    """w with T w = v, T triangular with non-zero diagonal (obligation at the call site)."""
    lower = kw.get("lower", False)
    if kw.get("trans", "N") not in ("N", 0):
        raise Unsupported("solve_triangular(trans=...)")
    t = as_nd(dom, T)
    b = as_nd(dom, v)
    n = t.shape[0]
    cols = 1 if b.ndim == 1 else b.shape[1]
    res = [None] * (n * cols)
    for c in range(cols):
        order = range(n) if lower else range(n - 1, -1, -1)
        for i in order:
            acc = b.flat[i * cols + c] if b.ndim == 2 else b.flat[i]
            rng = range(i) if lower else range(i + 1, n)
            for j in rng:
                acc = sop(dom, "Sub", acc, sop(dom, "Mult", t.flat[i * n + j], res[j * cols + c]))
            d = t.flat[i * n + i]
            if z3.is_expr(d):
                dom.run.oblige("solve_triangular::diag_nonzero", d != 0, props=("SAFE",))
            elif d == 0:
                dom.run.oblige("solve_triangular::diag_nonzero", False, props=("SAFE",), backend="structural")
                raise PathEndSafe()
            res[i * cols + c] = sop(dom, "Div", acc, d)
    return out(dom, ND(b.shape, res))


class PathEndSafe(Exception):
    pass


def cholesky(dom, A, kw):
    """lower J with J J^T = A; requires A symmetric positive definite (leading minors > 0: obligations)."""
    if not kw.get("lower", False):
        raise Unsupported("cholesky(lower=False)")
    a = as_nd(dom, A)
    n = a.shape[0]
    L = [0.0] * (n * n)
    for j in range(n):
        acc = a.flat[j * n + j]
        for k in range(j):
            acc = sop(dom, "Sub", acc, sop(dom, "Mult", L[j * n + k], L[j * n + k]))
        if z3.is_expr(acc):
            dom.run.oblige("cholesky::positive_pivot", acc > 0, props=("SAFE", "C10"))
            dom.run.assume(acc > 0)
        elif not acc > 0:
            dom.run.oblige("cholesky::positive_pivot", False, props=("SAFE", "C10"), backend="structural")
            raise PyExc(dom.make_exc("LinAlgError", ("matrix is not positive definite",)))
        d = sfun(dom, "np.sqrt", acc)
        if z3.is_expr(d):
            dom.run.assume(d > 0)
        L[j * n + j] = d
        for i in range(j + 1, n):
            acc2 = a.flat[i * n + j]
            for k in range(j):
                acc2 = sop(dom, "Sub", acc2, sop(dom, "Mult", L[i * n + k], L[j * n + k]))
            L[i * n + j] = sop(dom, "Div", acc2, d)
    return out(dom, ND((n, n), L))


def lin_solve(dom, A, b):
    """np.linalg.solve(A, b): the unique w with A w = b as fresh unknowns (requires A non-singular)."""
    a, rhs = as_nd(dom, A), as_nd(dom, b)
    n = a.shape[0]
    if rhs.ndim != 1:
        raise Unsupported("linalg.solve with a matrix right-hand side")
    if n == 1:
        if z3.is_expr(a.flat[0]):
            dom.run.oblige("linalg.solve::nonsingular", a.flat[0] != 0, props=("SAFE",))
        return out(dom, ND((1,), [sop(dom, "Div", rhs.flat[0], a.flat[0])]))
    w = [dom.run.fresh("solve_w", z3.RealSort()) for _ in range(n)]
    for i in range(n):
        dom.run.assume(ssum(dom, [sop(dom, "Mult", a.flat[i * n + j], w[j]) for j in range(n)]) == zreal(rhs.flat[i]))
    dom.run.ghost.setdefault("assumed_nonsingular", []).append(dom.run.site)
    return out(dom, ND((n,), w))
