"""Library models - the trusted base.  One table; every entry is an assumption about python/numpy/scipy that the
proofs do not check (conformance tests in checks/conformance.py exercise them against the real libraries).

UF domain: an array is an opaque Vec value; a pure numpy function is an uninterpreted function of the *values* of its
arguments returning a fresh array (np.* never returns an alias of an argument except where stated: atleast_1d,
asarray, .T on the same data is not used for writes here).
"""
import z3

from .values import Closure, BoundMethod, ClassV, PyExc, Unsupported, PathEnd, is_model, ModelValue
from .sym import (Sym, Arr, ND, MatTerm, Obj, DequeV, SymDeque, UserFn, LibFn, Module, SymBytes, ExcV, Vec, R, I, B,
                  INF, zexpr, zreal, zint, zbool, wrap, uf, fop, is_intlike)
from .domain import LibMethod, CtxNoop, RangeV, ExcClass

LIB = {}


def model(*names):
    def deco(f):
        for n in names:
            LIB[n] = f
        return f
    return deco


# ---------------------------------------------------------------------------------------------- helpers
def content(dom, a):
    return dom.run.heap[a.ref]


def is_vec(c):
    return z3.is_expr(c)


def vec_of(dom, a):
    """Arr / scalar -> z3 term for use as an argument of an uninterpreted numpy function."""
    if isinstance(a, Arr):
        c = dom.run.heap[a.ref]
        if z3.is_expr(c):
            return c
        if isinstance(c, MatTerm):
            return mat_term(dom, c)
        if isinstance(c, ND) and all(isinstance(v, (int, float, bool)) for v in c.flat):
            # a concrete constant array (e.g. np.zeros([1, 1])): an opaque constant determined by its value
            return z3.Const(f"ndconst{c.shape}{tuple(c.flat)}", Vec)
        raise Unsupported(f"fixed-shape array in an opaque operation at {dom.run.site}")
    if isinstance(a, (Sym, int, float, bool)):
        if isinstance(a, bool) or (isinstance(a, Sym) and a.e.sort() == B):
            return zbool(a)
        if is_intlike(a):
            return zint(a)
        return dom.uf_real(a)
    raise Unsupported(f"cannot pass {a!r} to an opaque numpy function")


def mat_term(dom, c):
    """Opaque rendering of a structured matrix value."""
    if c.kind == "opaque":
        return c.args[0]
    if c.kind == "T":
        return uf("transpose", Vec, Vec)(mat_term(dom, c.args[0]))
    if c.kind == "cmp":
        op, x, y = c.args
        return uf("cmp_" + op, *(_sorts(dom, x, y) + [Vec]))(*_terms(dom, x, y))
    if c.kind == "scalarbox":
        return uf("box", R, Vec)(dom.uf_real(c.args[0]))
    if c.kind in ("stack", "diffstack"):
        snap = c.args[0]
        f = uf("mat:" + c.kind, z3.ArraySort(I, Vec), I, I, Vec)
        if isinstance(snap, tuple) and len(snap) == 4 and isinstance(snap[0], str) and snap[0] == "sym":
            return f(snap[1], snap[2], snap[3])
        # concrete list of Vec terms
        a = z3.K(I, z3.Const("VEC0", Vec))
        for k, t in enumerate(snap):
            a = z3.Store(a, k, t)
        return f(a, z3.IntVal(0), z3.IntVal(len(snap)))
    raise Unsupported(f"matrix term {c.kind}")


def new_arr(dom, term, region=None):
    return dom.run.alloc(term, region)


def flat_args(args):
    out = []
    for a in args:
        if isinstance(a, (list, tuple)):
            out.append("[")
            out.extend(flat_args(a))
            out.append("]")
        else:
            out.append(a)
    return out


def opaque(dom, name, args, result="V", static=()):
    """Uninterpreted numpy function: result is a fresh array/scalar determined by the argument values."""
    fa = flat_args(args)
    static = tuple(static) + tuple(f"@{i}{a}" for i, a in enumerate(fa) if isinstance(a, str) or a is None)
    terms = [vec_of(dom, a) for a in fa if not (isinstance(a, str) or a is None)]
    fname = name + ("[" + ",".join(str(s) for s in static) + "]" if static else "")
    rs = {"V": Vec, "R": R, "I": I, "B": B}[result]
    f = uf(fname, *([t.sort() for t in terms] + [rs]))
    t = f(*terms)
    if result == "V":
        return new_arr(dom, t)
    return wrap(t) if result != "R" else Sym(t)


def all_le(a, b):
    """component-wise a <= b (Vec, Vec -> Bool), uninterpreted apart from the axioms added at clip sites."""
    return uf("all_le", Vec, Vec, B)(a, b)


def inbox(x, lb, ub):
    return z3.And(all_le(lb, x), all_le(x, ub))


def nd(dom, a):
    c = dom.run.heap[a.ref]
    if not isinstance(c, ND):
        raise Unsupported("expected a fixed-shape array")
    return c


def any_nd(dom, *vals):
    for v in vals:
        if isinstance(v, Arr) and isinstance(dom.run.heap[v.ref], ND):
            return True
        if isinstance(v, (list, tuple)) and any_nd(dom, *v):
            return True
    return False


def real_mode(dom, *vals):
    return dom.run.mode in ("real", "cas") or any_nd(dom, *vals)


# ---------------------------------------------------------------------------------------------- builtins
@model("callable")
def _callable(dom, args, kw):
    return isinstance(args[0], (UserFn, Closure, BoundMethod, LibFn, ClassV, LibMethod))


@model("len")
def _len(dom, args, kw):
    v = args[0]
    if isinstance(v, DequeV):
        c = dom.run.heap[v.ref]
        if isinstance(c, list):
            return len(c)
        return wrap(c.hi - c.lo)
    if isinstance(v, Arr):
        c = dom.run.heap[v.ref]
        if isinstance(c, ND):
            if not c.shape:
                raise PyExc(dom.make_exc("TypeError", ("len() of unsized object",)))
            return c.shape[0]
        if isinstance(c, MatTerm) and c.kind in ("stack", "diffstack"):
            return mat_rows(dom, c)
        return wrap(uf("rows", Vec, I)(vec_of(dom, v)))
    if isinstance(v, SymBytes):
        raise Unsupported("len of symbolic bytes")
    return len(v)


def mat_rows(dom, c):
    snap = c.args[0]
    if isinstance(snap, tuple) and len(snap) == 4 and isinstance(snap[0], str) and snap[0] == "sym":
        n = snap[3] - snap[2]
    else:
        n = z3.IntVal(len(snap))
    if c.kind == "diffstack":
        n = z3.If(n - 1 >= 0, n - 1, 0)
    return wrap(n)


@model("min", "max")
def _minmax(dom, args, kw, _name=None):
    raise Unsupported("min/max dispatch")


def _make_minmax(is_min):
    def f(dom, args, kw):
        if len(args) == 1:
            items = dom.iterate(args[0]) if is_model(args[0]) else list(args[0])
        else:
            items = list(args)
        if kw:
            raise Unsupported("min/max with keywords")
        items = [scalar_of(dom, x) for x in items]
        if not items:
            raise PyExc(dom.make_exc("ValueError", ("min() arg is an empty sequence",)))
        best = items[0]
        for x in items[1:]:
            # python: min returns the first minimal element: replace when x < best (max: x > best)
            c = dom.scalar_compare("Lt" if is_min else "Gt", x, best)
            if isinstance(c, bool):
                best = x if c else best
            else:
                if is_intlike(x) and is_intlike(best):
                    best = wrap(z3.If(zbool(c), zint(x), zint(best)))
                elif dom.run.mode == "real" and not any(isinstance(v, float) and v in (INF, -INF) for v in (x, best)):
                    best = wrap(z3.If(zbool(c), zreal(x), zreal(best)))
                elif dom.run.mode == "uf":
                    best = wrap(z3.If(zbool(c), dom.uf_real(x), dom.uf_real(best)))
                else:
                    best = x if dom.run.branch(c) else best
        return best
    return f


LIB["min"] = _make_minmax(True)
LIB["max"] = _make_minmax(False)


def scalar_of(dom, v):
    """0-d / 1-element arrays and python scalars -> scalar."""
    if isinstance(v, Arr):
        c = dom.run.heap[v.ref]
        if isinstance(c, ND) and len(c.flat) == 1:
            return dom.scalar_out(c.flat[0])
        raise Unsupported("array where a scalar is expected")
    return v


@model("abs")
def _abs(dom, args, kw):
    v = args[0]
    if isinstance(v, Arr):
        return LIB["np.abs"](dom, args, kw)
    if not isinstance(v, Sym):
        return abs(v)
    if v.e.sort() == I:
        return wrap(z3.If(v.e >= 0, v.e, -v.e))
    if dom.run.mode == "real":
        return wrap(z3.If(v.e >= 0, v.e, -v.e))
    # IEEE abs is exact; keep it uninterpreted but sign-aware
    t = uf("fabs", R, R)(v.e)
    dom.run.assume(t >= 0)
    return Sym(t)


@model("float")
def _float(dom, args, kw):
    v = scalar_of(dom, args[0])
    if isinstance(v, Sym):
        return wrap(zreal(v)) if v.e.sort() != R else v
    return float(v)


@model("int")
def _int(dom, args, kw):
    v = scalar_of(dom, args[0])
    if isinstance(v, Sym):
        if v.e.sort() == I:
            return v
        if dom.run.mode == "uf":
            return Sym(uf("ftoi", R, I)(v.e))
        return wrap(z3.ToInt(v.e))
    return int(v)


@model("bool")
def _bool(dom, args, kw):
    return dom.truth(args[0])


@model("range")
def _range(dom, args, kw):
    if all(not isinstance(a, Sym) for a in args):
        return list(range(*args))
    if len(args) == 1:
        return RangeV(args[0])
    step = args[2] if len(args) > 2 else 1
    if isinstance(step, int) and not isinstance(step, bool) and step != 0:
        return RangeV(args[0], args[1], step)
    raise Unsupported("range with a symbolic step")


@model("zip")
def _zip(dom, args, kw):
    return list(zip(*[dom.iterate(a) if is_model(a) else list(a) for a in args]))


@model("enumerate")
def _enumerate(dom, args, kw):
    return list(enumerate(dom.iterate(args[0]) if is_model(args[0]) else list(args[0])))


@model("any")
def _any(dom, args, kw):
    for x in (dom.iterate(args[0]) if is_model(args[0]) else args[0]):
        if dom.truth(x):
            return True
    return False


@model("all")
def _all(dom, args, kw):
    for x in (dom.iterate(args[0]) if is_model(args[0]) else args[0]):
        if not dom.truth(x):
            return False
    return True


@model("list")
def _list(dom, args, kw):
    if not args:
        return []
    return list(dom.iterate(args[0]) if is_model(args[0]) else args[0])


@model("tuple")
def _tuple(dom, args, kw):
    if not args:
        return ()
    return tuple(dom.iterate(args[0]) if is_model(args[0]) else args[0])


@model("str", "repr", "format")
def _str(dom, args, kw):
    return "<str>"


@model("print")
def _print(dom, args, kw):
    return None


@model("isinstance")
def _isinstance(dom, args, kw):
    raise Unsupported("isinstance on symbolic values")


@model("sum")
def _sum(dom, args, kw):
    acc = args[1] if len(args) > 1 else 0
    for x in (dom.iterate(args[0]) if is_model(args[0]) else args[0]):
        acc = dom.binop("Add", acc, x)
    return acc


@model("dataclasses.dataclass")
def _dataclass(dom, args, kw):
    return args[0]


# ---------------------------------------------------------------------------------------------- copy / misc stdlib
def _copy_common(dom, v, deep):
    if isinstance(v, (Sym, int, float, bool, str, bytes, type(None))):
        return v                      # immutable scalars: identity (numpy float64 scalars are immutable too)
    if isinstance(v, Arr):
        return LIB["np.copy"](dom, [v], {})
    if isinstance(v, Obj) and v.cls == "OptimizeResult" and not deep:
        o = Obj("OptimizeResult", dom.run.new_ref())       # shallow copy of the dict: a new object, the same fields
        o.f.update(v.f)
        return o
    raise Unsupported(f"{'deep' if deep else ''}copy of {type(v).__name__}")


@model("copy.copy")
def _copy(dom, args, kw):
    return _copy_common(dom, args[0], False)


@model("copy.deepcopy")
def _deepcopy(dom, args, kw):
    return _copy_common(dom, args[0], True)


@model("packaging.version.Version")
def _version(dom, args, kw):
    from packaging.version import Version
    if isinstance(args[0], str):
        return Version(args[0])
    raise Unsupported("Version of a symbolic value")


@model("warnings.catch_warnings", "np.errstate")
def _ctx(dom, args, kw):
    return CtxNoop("ctx")


@model("warnings.filterwarnings")
def _filterwarnings(dom, args, kw):
    return None


@model("collections.deque", "typing.Deque")
def _deque(dom, args, kw):
    items = []
    if args:
        src = args[0]
        items = list(dom.iterate(src) if is_model(src) else src)
    return dom.run.alloc_deque(items)


@model("deque.append")
def _dq_append(dom, args, kw):
    dq, v = args
    dq_write(dom, dq)
    c = dom.run.heap[dq.ref]
    if isinstance(c, list):
        c.append(v)
    else:
        dom.run.heap[dq.ref] = SymDeque(z3.Store(c.a, c.hi, elem_val(dom, v)), c.lo, c.hi + 1)
    freeze(dom, dq, v)
    return None


@model("deque.appendleft")
def _dq_appendleft(dom, args, kw):
    dq, v = args
    dq_write(dom, dq)
    c = dom.run.heap[dq.ref]
    if isinstance(c, list):
        c.insert(0, v)
    else:
        dom.run.heap[dq.ref] = SymDeque(z3.Store(c.a, c.lo - 1, elem_val(dom, v)), c.lo - 1, c.hi)
    freeze(dom, dq, v)
    return None


@model("deque.popleft")
def _dq_popleft(dom, args, kw):
    dq = args[0]
    dq_write(dom, dq)
    c = dom.run.heap[dq.ref]
    if isinstance(c, list):
        if not c:
            raise PyExc(dom.make_exc("IndexError", ("pop from an empty deque",)))
        return c.pop(0)
    if dom.run.branch(c.hi - c.lo <= 0):
        raise PyExc(dom.make_exc("IndexError", ("pop from an empty deque",)))
    v = new_arr(dom, z3.Select(c.a, c.lo), "local")
    dom.run.heap[dq.ref] = SymDeque(c.a, c.lo + 1, c.hi)
    return v


@model("deque.pop")
def _dq_pop(dom, args, kw):
    dq = args[0]
    dq_write(dom, dq)
    c = dom.run.heap[dq.ref]
    if isinstance(c, list):
        if not c:
            raise PyExc(dom.make_exc("IndexError", ("pop from an empty deque",)))
        return c.pop()
    if dom.run.branch(c.hi - c.lo <= 0):
        raise PyExc(dom.make_exc("IndexError", ("pop from an empty deque",)))
    v = new_arr(dom, z3.Select(c.a, c.hi - 1), "local")
    dom.run.heap[dq.ref] = SymDeque(c.a, c.lo, c.hi - 1)
    return v


@model("deque.clear")
def _dq_clear(dom, args, kw):
    dq = args[0]
    dq_write(dom, dq)
    c = dom.run.heap[dq.ref]
    if isinstance(c, list):
        c.clear()
    else:
        dom.run.heap[dq.ref] = SymDeque(c.a, c.lo, c.lo)
    return None


def dq_write(dom, dq):
    reg = dom.run.region.get(dq.ref, "local")
    ok = reg == "local"
    if ok:
        dom.run.oblige("frame::write_is_local", True, props=("FRAME",), backend="frame")
    else:
        dom.run.oblige(dom.FRAME_NAMES.get(reg, "frame::no_write_caller_owned"), False,
                       props=("FRAME", "FRAME:" + reg), backend="frame",
                       info=f"mutation of a deque owned by '{reg}' at {dom.run.site}")
    if dom.write_hook is not None:
        dom.write_hook(dq.ref, "deque")


def freeze(dom, dq, v):
    """An array stored in a history deque must not be written in place afterwards (it would rewrite history)."""
    if isinstance(v, Arr):
        dom.run.frozen[v.ref] = f"deque#{dq.ref}({dom.run.tags.get(dq.ref, '?')})"


def elem_val(dom, v):
    if isinstance(v, Arr):
        c = dom.run.heap[v.ref]
        if z3.is_expr(c):
            return c
    raise Unsupported("symbolic-length deque holds opaque array values only")


@model("deque:setitem")
def _dq_setitem(dom, args, kw):
    dq, idx, v = args
    dq_write(dom, dq)
    c = dom.run.heap[dq.ref]
    if isinstance(c, list):
        if isinstance(idx, Sym):
            raise Unsupported("symbolic index into a concrete deque")
        try:
            c[idx] = v
        except IndexError:
            raise PyExc(dom.make_exc("IndexError", ("deque index out of range",)))
        freeze(dom, dq, v)
        return None
    n = c.hi - c.lo
    if isinstance(idx, int):
        pos = c.lo + idx if idx >= 0 else c.hi + idx
        inb = (n > idx) if idx >= 0 else (n >= -idx)
    else:
        i = zint(idx)
        pos = z3.If(i >= 0, c.lo + i, c.hi + i)
        inb = z3.And(i < n, -i <= n)
    if not dom.run.branch(inb):
        raise PyExc(dom.make_exc("IndexError", ("deque index out of range",)))
    dom.run.heap[dq.ref] = SymDeque(z3.Store(c.a, pos, elem_val(dom, v)), c.lo, c.hi)
    freeze(dom, dq, v)
    return None


@model("deque:getitem")
def _dq_getitem(dom, args, kw):
    dq, idx = args
    c = dom.run.heap[dq.ref]
    if isinstance(c, list):
        if isinstance(idx, Sym):
            raise Unsupported("symbolic index into a concrete deque")
        try:
            return c[idx]
        except IndexError:
            raise PyExc(dom.make_exc("IndexError", ("deque index out of range",)))
    n = c.hi - c.lo
    if isinstance(idx, int):
        pos = c.lo + idx if idx >= 0 else c.hi + idx
        inb = (n > idx) if idx >= 0 else (n >= -idx)
    else:
        i = zint(idx)
        pos = z3.If(i >= 0, c.lo + i, c.hi + i)
        inb = z3.And(i < n, -i <= n)
    if not dom.run.branch(inb):
        raise PyExc(dom.make_exc("IndexError", ("deque index out of range",)))
    a = new_arr(dom, z3.Select(c.a, pos), "local")
    dom.run.frozen[a.ref] = f"deque#{dq.ref} element"
    dom.run.tags[a.ref] = ("deque_elem", dq.ref, pos)
    return a


# ---------------------------------------------------------------------------------------------- numpy: UF + ND
def _fresh_copy(dom, a):
    c = dom.run.heap[a.ref]
    if isinstance(c, ND):
        return dom.run.alloc(ND(c.shape, list(c.flat)))
    return dom.run.alloc(c)


@model("np.copy", "ndarray.copy")
def _np_copy(dom, args, kw):
    a = args[0]
    if isinstance(a, Arr):
        return _fresh_copy(dom, a)
    if isinstance(a, (Sym, int, float)):
        return a
    raise Unsupported(f"np.copy of {type(a).__name__}")


@model("ndarray.astype")
def _astype(dom, args, kw):
    a = args[0]
    c = dom.run.heap[a.ref]
    tag = dom.run.ghost.get("dtype", {}).get(a.ref, "float64")
    want = args[1] if len(args) > 1 else kw.get("dtype")
    want = want.name if isinstance(want, LibFn) else want
    if want not in ("float", "float64", "np.float64", None):
        raise Unsupported(f"astype to {want!r}")
    if kw.get("copy", True) is not True:
        if kw.get("copy") is False and tag == "float64":
            return a                    # numpy: no copy when the dtype already matches -> the same array object
        raise Unsupported("astype(copy=...) with a symbolic flag or a dtype change")
    if isinstance(c, ND):
        return dom.run.alloc(ND(c.shape, list(c.flat)))
    if tag == "float64":
        return dom.run.alloc(c)         # float64 -> float: fresh array, same value
    return opaque(dom, "astype_float", [a])


@model("np.atleast_1d", "np.asarray")
def _atleast_1d(dom, args, kw):
    a = args[0]
    if isinstance(a, Arr):
        c0 = dom.run.heap[a.ref]
        if isinstance(c0, ND) and c0.ndim == 0 and kw.get("_name") != "asarray":
            return dom.run.alloc(ND((1,), list(c0.flat)))
        return a                        # numpy returns the argument itself when it is already an ndarray
    if isinstance(a, (Sym, int, float)):
        if real_mode(dom):
            return dom.run.alloc(ND((1,) if kw.get("_name") != "asarray" else (), [a]))
        return ScalarBox(a) if False else dom.run.alloc(MatTerm("scalarbox", a))
    if isinstance(a, (list, tuple)):
        return LIB["np.array"](dom, [a], {})
    raise Unsupported(f"atleast_1d of {type(a).__name__}")


@model("np.atleast_2d")
def _atleast_2d(dom, args, kw):
    a = args[0]
    c = dom.run.heap[a.ref]
    if isinstance(c, MatTerm) and c.kind in ("stack", "diffstack"):
        return a                        # already 2-D: returned as is
    if isinstance(c, ND):
        if c.ndim == 2:
            return a
        if c.ndim == 1:
            return dom.run.alloc(ND((1, c.shape[0]), list(c.flat)))
    raise Unsupported("atleast_2d")


@model("ndarray.item")
def _item(dom, args, kw):
    a = args[0]
    c = dom.run.heap[a.ref]
    if isinstance(c, MatTerm) and c.kind == "scalarbox":
        return c.args[0]
    if isinstance(c, ND) and len(c.flat) == 1:
        return dom.scalar_out(c.flat[0])
    # user returned a non-scalar: conversion may fail
    raise Unsupported("item() of an opaque array")


@model("np.isscalar")
def _isscalar(dom, args, kw):
    return isinstance(args[0], (Sym, int, float, bool))


@model("np.array_equal")
def _array_equal(dom, args, kw):
    a, b = args
    ca, cb = dom.run.heap[a.ref], dom.run.heap[b.ref]
    if isinstance(ca, ND) and isinstance(cb, ND):
        if ca.shape != cb.shape:
            return False
        return wrap(z3.And(*[z3.BoolVal(True)] + [zbool(dom.scalar_compare("Eq", dom.scalar_out(x), dom.scalar_out(y)))
                                                    for x, y in zip(ca.flat, cb.flat)]))
    return wrap(vec_of(dom, a) == vec_of(dom, b))     # value equality (A-NAN: no NaN components)


@model("arrattr:size")
def _size(dom, a):
    c = dom.run.heap[a.ref]
    if isinstance(c, ND):
        return len(c.flat)
    if isinstance(c, MatTerm):
        raise Unsupported("size of a structured matrix")
    t = uf("size", Vec, I)(c)
    dom.run.assume(t >= 0)
    return wrap(t)


@model("arrattr:shape")
def _shape(dom, a):
    c = dom.run.heap[a.ref]
    if isinstance(c, ND):
        return c.shape
    if isinstance(c, MatTerm) and c.kind in ("stack", "diffstack"):
        return (mat_rows(dom, c), wrap(uf("cols", Vec, I)(mat_term(dom, c))))
    kind = dom.run.ghost.get("ndim", {}).get(a.ref)
    if kind == 2:
        return (wrap(uf("rows", Vec, I)(c)), wrap(uf("cols", Vec, I)(c)))
    if kind == 1:
        return (_size(dom, a),)
    return ShapeV(c if z3.is_expr(c) else vec_of(dom, a))


@model("arrattr:dtype")
def _dtype(dom, a):
    return dom.run.ghost.get("dtype", {}).get(a.ref, "float64")


@model("attr:np.float64")
def _np_float64(dom):
    return "float64"


@model("attr:np.int_")
def _np_int(dom):
    return "int64"


@model("attr:np.intc")
def _np_intc(dom):
    return "int32"


@model("arrattr:T")
def _T(dom, a):
    c = dom.run.heap[a.ref]
    if isinstance(c, ND):
        if c.ndim <= 1:
            return a
        r, k = c.shape
        return dom.run.alloc(ND((k, r), [c.flat[i * k + j] for j in range(k) for i in range(r)]))
    if isinstance(c, MatTerm):
        if c.kind == "T":
            return dom.run.alloc(c.args[0])
        return dom.run.alloc(MatTerm("T", c))
    kind = dom.run.ghost.get("ndim", {}).get(a.ref, 1)
    if kind == 1:
        return a                        # transpose of a 1-D array is the array itself (a view of the same data)
    return opaque(dom, "transpose", [a])


@model("np.finfo")
def _finfo(dom, args, kw):
    o = Obj("finfo", dom.run.new_ref())
    o.f["eps"] = 2.220446049250313e-16
    return o


@model("np.zeros_like")
def _zeros_like(dom, args, kw):
    a = args[0]
    c = dom.run.heap[a.ref]
    if isinstance(c, ND):
        return dom.run.alloc(ND(c.shape, [0.0] * len(c.flat)))
    return new_arr(dom, uf("zeros", I, Vec)(uf("size", Vec, I)(c)))


@model("np.zeros")
def _zeros(dom, args, kw):
    shape = args[0]
    if isinstance(shape, (list, tuple)) and all(isinstance(s, int) for s in shape) or isinstance(shape, int):
        shp = (shape,) if isinstance(shape, int) else tuple(shape)
        n = 1
        for s in shp:
            n *= s
        return dom.run.alloc(ND(shp, [0.0] * n))
    if isinstance(shape, Sym):
        return new_arr(dom, uf("zeros", I, Vec)(zint(shape)))
    if isinstance(shape, (list, tuple)):
        return opaque(dom, "zeros2", list(shape))
    raise Unsupported("np.zeros shape")


@model("np.array")
def _np_array(dom, args, kw):
    v = args[0]
    if isinstance(v, DequeV):
        c = dom.run.heap[v.ref]
        if isinstance(c, list):
            if c and all(isinstance(e, Arr) and isinstance(dom.run.heap[e.ref], ND) for e in c):
                rows = [dom.run.heap[e.ref] for e in c]
                n = rows[0].shape[0]
                return dom.run.alloc(ND((len(rows), n), [x for r in rows for x in r.flat]))
            snap = tuple(elem_val(dom, e) for e in c)
            return dom.run.alloc(MatTerm("stack", snap))
        return dom.run.alloc(MatTerm("stack", ("sym", c.a, c.lo, c.hi)))
    if isinstance(v, Arr):
        return _fresh_copy(dom, v)
    if isinstance(v, (list, tuple)):
        if len(v) == 0:
            return dom.run.alloc(ND((0,), []))
        if all(isinstance(e, (Sym, int, float, bool)) for e in v):
            return dom.run.alloc(ND((len(v),), list(v)))
        if all(isinstance(e, Arr) and isinstance(dom.run.heap[e.ref], ND) for e in v):
            rows = [dom.run.heap[e.ref] for e in v]
            return dom.run.alloc(ND((len(rows),) + rows[0].shape, [x for r in rows for x in r.flat]))
        if all(isinstance(e, (list, tuple)) for e in v):
            rows = [list(e) for e in v]
            return dom.run.alloc(ND((len(rows), len(rows[0])), [x for r in rows for x in r]))
    raise Unsupported(f"np.array of {type(v).__name__} at {dom.run.site}")


@model("np.diff")
def _np_diff(dom, args, kw):
    a = args[0]
    axis = kw.get("axis", -1)
    c = dom.run.heap[a.ref]
    if isinstance(c, MatTerm) and c.kind == "stack" and axis == 0:
        return dom.run.alloc(MatTerm("diffstack", c.args[0]))
    if isinstance(c, ND):
        if c.ndim == 2 and axis == 0:
            r, k = c.shape
            out = []
            for i in range(r - 1):
                for j in range(k):
                    out.append(num(dom.scalar_binop("Sub", dom.scalar_out(c.flat[(i + 1) * k + j]),
                                                    dom.scalar_out(c.flat[i * k + j]))))
            return dom.run.alloc(ND((max(r - 1, 0), k), out))
        if c.ndim == 1 and axis in (0, -1):
            out = [num(dom.scalar_binop("Sub", dom.scalar_out(c.flat[i + 1]), dom.scalar_out(c.flat[i])))
                   for i in range(len(c.flat) - 1)]
            return dom.run.alloc(ND((max(len(c.flat) - 1, 0),), out))
    raise Unsupported("np.diff")


def num(v):
    return v.e if isinstance(v, Sym) else v


# -- element-wise arithmetic -------------------------------------------------------------------
@model("arr:binop")
def _arr_binop(dom, args, kw):
    op, a, b, inplace = args
    if real_mode(dom, a, b) or isinstance(a, (list, tuple)) or isinstance(b, (list, tuple)):
        from . import libreal
        return libreal.binop(dom, op, a, b, inplace)
    run = dom.run
    if op == "MatMult":
        res = opaque(dom, "matmul", [a, b])
        return res
    if isinstance(a, Arr) and isinstance(b, Arr):
        name = {"Add": "vadd", "Sub": "vsub", "Mult": "vmul", "Div": "vdiv", "Pow": "vpow",
                "BitAnd": "vand", "BitOr": "vor"}.get(op)
        if name is None:
            raise Unsupported(f"array op {op}")
        ta, tb = vec_of(dom, a), vec_of(dom, b)
        if name in ("vadd", "vmul"):
            t = dom.comm(name, Vec, Vec, ta, tb)
        else:
            t = uf(name, Vec, Vec, Vec)(ta, tb)
    else:
        arr, sc, arr_left = (a, b, True) if isinstance(a, Arr) else (b, a, False)
        tv = vec_of(dom, arr)
        if not isinstance(sc, (Sym, int, float)):
            raise Unsupported(f"array op with {type(sc).__name__}")
        ts = dom.uf_real(sc)
        if op == "Mult":
            t = tv if dom._is_one(sc) else uf("vscale", Vec, R, Vec)(tv, ts)
        elif op == "Div" and arr_left:
            t = tv if dom._is_one(sc) else uf("vdivs", Vec, R, Vec)(tv, ts)
        elif op == "Add":
            t = uf("vadds", Vec, R, Vec)(tv, ts)
        elif op == "Sub" and arr_left:
            t = uf("vsubs", Vec, R, Vec)(tv, ts)
        elif op == "Sub":
            t = uf("svsub", R, Vec, Vec)(ts, tv)
        elif op == "Div":
            t = uf("svdiv", R, Vec, Vec)(ts, tv)
        elif op == "Pow" and arr_left:
            t = uf("vpows", Vec, R, Vec)(tv, ts)
        else:
            raise Unsupported(f"array/scalar op {op}")
    if inplace and isinstance(a, Arr):
        dom.check_write(a.ref, f"augmented assignment ({op})")
        run.heap[a.ref] = t
        return a
    return new_arr(dom, t)


@model("arr:unary")
def _arr_unary(dom, args, kw):
    op, a = args
    if real_mode(dom, a):
        from . import libreal
        return libreal.unary(dom, op, a)
    return opaque(dom, {"USub": "vneg", "Invert": "vnot", "UAdd": "vpos"}[op], [a])


@model("arr:compare")
def _arr_compare(dom, args, kw):
    op, a, b = args
    if real_mode(dom, a, b):
        from . import libreal
        return libreal.compare(dom, op, a, b)
    ta = vec_of(dom, a) if isinstance(a, Arr) else None
    tb = vec_of(dom, b) if isinstance(b, Arr) else None
    return dom.run.alloc(MatTerm("cmp", op, a if ta is None else ta, b if tb is None else tb))


@model("ndarray.any")
def _nd_any(dom, args, kw):
    a = args[0]
    c = dom.run.heap[a.ref]
    if isinstance(c, ND):
        return wrap(z3.Or(*[z3.BoolVal(False)] + [zbool(dom.scalar_out(x)) for x in c.flat]))
    if isinstance(c, MatTerm) and c.kind == "cmp":
        op, x, y = c.args
        if z3.is_expr(x) and z3.is_expr(y):
            if op == "Gt":
                return wrap(z3.Not(all_le(x, y)))
            if op == "Lt":
                return wrap(z3.Not(all_le(y, x)))
        return Sym(uf("any_cmp_" + op, *(_sorts(dom, x, y) + [B]))(*_terms(dom, x, y)))
    return opaque(dom, "any", [a], "B")


@model("ndarray.all")
def _nd_all(dom, args, kw):
    a = args[0]
    c = dom.run.heap[a.ref]
    if isinstance(c, ND):
        return wrap(z3.And(*[z3.BoolVal(True)] + [zbool(dom.scalar_out(x)) for x in c.flat]))
    if isinstance(c, MatTerm) and c.kind == "cmp":
        op, x, y = c.args
        if z3.is_expr(x) and z3.is_expr(y):
            if op == "LtE":
                return wrap(all_le(x, y))
            if op == "GtE":
                return wrap(all_le(y, x))
        return Sym(uf("all_cmp_" + op, *(_sorts(dom, x, y) + [B]))(*_terms(dom, x, y)))
    return opaque(dom, "all", [a], "B")


def _terms(dom, *xs):
    return [x if z3.is_expr(x) else dom.uf_real(x) for x in xs]


def _sorts(dom, *xs):
    return [t.sort() for t in _terms(dom, *xs)]


@model("np.count_nonzero")
def _count_nonzero(dom, args, kw):
    a = args[0]
    c = dom.run.heap[a.ref]
    if isinstance(c, ND):
        return wrap(z3.Sum(*[z3.IntVal(0)] + [z3.If(zbool(dom.scalar_out(x)), 1, 0) for x in c.flat]))
    if isinstance(c, MatTerm) and c.kind == "cmp":
        op, x, y = c.args
        return Sym(uf("count_cmp_" + op, *(_sorts(dom, x, y) + [I]))(*_terms(dom, x, y)))
    return opaque(dom, "count_nonzero", [a], "I")


@model("np.logical_or")
def _logical_or(dom, args, kw):
    if real_mode(dom, *args):
        from . import libreal
        return libreal.binop(dom, "BitOr", args[0], args[1], False)
    return dom.run.alloc(MatTerm("opaque", uf("logical_or", Vec, Vec, Vec)(_mt(dom, args[0]), _mt(dom, args[1]))))


def _mt(dom, a):
    c = dom.run.heap[a.ref]
    if isinstance(c, MatTerm) and c.kind == "cmp":
        op, x, y = c.args
        return uf("cmp_" + op, *(_sorts(dom, x, y) + [Vec]))(*_terms(dom, x, y))
    return vec_of(dom, a)


@model("np.isinf")
def _isinf(dom, args, kw):
    a = args[0]
    if real_mode(dom, a):
        from . import libreal
        return libreal.isinf(dom, a)
    if isinstance(a, Arr):
        return dom.run.alloc(MatTerm("opaque", uf("isinf", Vec, Vec)(vec_of(dom, a))))
    return Sym(uf("sisinf", R, B)(dom.uf_real(a)))


@model("np.isfinite")
def _isfinite(dom, args, kw):
    a = args[0]
    if real_mode(dom, a):
        from . import libreal
        return libreal.isfinite(dom, a)
    if isinstance(a, Arr):
        return dom.run.alloc(MatTerm("opaque", uf("isfinite", Vec, Vec)(vec_of(dom, a))))
    if not isinstance(a, Sym):
        return a == a and a not in (INF, -INF)
    return Sym(uf("sisfinite", R, B)(dom.uf_real(a)))


@model("np.clip")
def _clip(dom, args, kw):
    if len(args) == 3:
        x, lo, hi = args
    else:
        x = args[0]
        lo = kw.get("a_min", kw.get("min"))
        hi = kw.get("a_max", kw.get("max"))
    outarr = kw.get("out")
    if real_mode(dom, x, lo, hi):
        from . import libreal
        res = libreal.clip(dom, x, lo, hi)
        if outarr is not None:
            dom.check_write(outarr.ref, "np.clip(out=)")
            dom.run.heap[outarr.ref] = dom.run.heap[res.ref]
            return outarr
        return res
    tx, tl, th = vec_of(dom, x), vec_of(dom, lo), vec_of(dom, hi)
    t = uf("clip", Vec, Vec, Vec, Vec)(tx, tl, th)
    # axioms of np.clip for lb <= ub without NaN: result inside the box; identity on points inside the box
    dom.run.assume(z3.Implies(all_le(tl, th), inbox(t, tl, th)))
    dom.run.assume(z3.Implies(inbox(tx, tl, th), t == tx))
    if outarr is not None:
        # in-place variant: the result is written into `out` (a heap write, subject to the frame obligations)
        dom.check_write(outarr.ref, "np.clip(out=)")
        dom.run.heap[outarr.ref] = t
        return outarr
    return new_arr(dom, t)


def _opaque_model(name, result="V", nargs=None):
    def f(dom, args, kw):
        if real_mode(dom, *args):
            from . import libreal
            return libreal.call(dom, name, args, kw)
        static = tuple(f"{k}={v}" for k, v in sorted(kw.items()) if not is_model(v))
        extra = [v for k, v in sorted(kw.items()) if is_model(v)]
        return opaque(dom, name, list(args[:nargs] if nargs else args) + extra, result, static)
    return f


for _n, _r in (("np.abs", "V"), ("np.max", "R"), ("np.min", "R"), ("np.nanmin", "R"), ("np.sum", "R"),
               ("np.sqrt", None), ("np.square", "V"), ("np.exp", None), ("np.cos", None), ("np.sin", None),
               ("np.power", "V"), ("np.prod", "R"), ("np.where", "V"), ("np.hstack", "V"), ("np.vstack", "V"),
               ("np.diag", "V"), ("np.tril", "V"), ("np.cumsum", "V"), ("np.argsort", "V"), ("np.dot", None),
               ("np.linalg.norm", "R"), ("np.linalg.solve", "V"), ("np.isin", "V"), ("np.transpose", "V"),
               ("np.identity", "V"), ("np.eye", "V"), ("np.arange", "V"), ("np.repeat", "V"), ("np.unique", "V"),
               ("sp.linalg.solve_triangular", "V"), ("sp.linalg.cholesky", "V"),
               # further pure numpy functions a change to the package may start using (opaque in the UF domain)
               ("np.isclose", "V"), ("np.allclose", "B"), ("np.sign", "V"), ("np.maximum", "V"), ("np.minimum", "V"),
               ("np.nan_to_num", "V"), ("np.any", "B"), ("np.all", "B"), ("np.round", "V"), ("np.floor", "V"),
               ("np.ceil", "V"), ("np.logical_and", "V"), ("np.logical_not", "V"), ("np.ones_like", "V"),
               ("np.full_like", "V"), ("np.empty_like", "V"), ("np.concatenate", "V"), ("np.linalg.inv", "V"),
               ("np.flatnonzero", "V"), ("np.take", "V"), ("np.nonzero", "V"), ("np.mean", "R"), ("np.log", "V"),
               ("np.outer", "V"), ("np.einsum", "V"), ("np.nanmax", "R"), ("np.amax", "R"), ("np.amin", "R"),
               ("np.absolute", "V"), ("np.fabs", "V"), ("np.negative", "V"), ("np.multiply", "V"), ("np.add", "V"),
               ("np.subtract", "V"), ("np.divide", "V"), ("np.float64", "R"), ("np.ones", "V"), ("np.full", "V"),
               ("np.empty", "V"), ("np.inner", "R"), ("np.vdot", "R"), ("np.trace", "R"), ("np.squeeze", "V"),
               ("np.ravel", "V"), ("np.reshape", "V"), ("np.isnan", "V"), ("np.argmin", "I"), ("np.argmax", "I")):
    if _r is not None:
        LIB[_n] = _opaque_model(_n, _r)


def _elementwise_or_scalar(name):
    def f(dom, args, kw):
        if real_mode(dom, *args):
            from . import libreal
            return libreal.call(dom, name, args, kw)
        a = args[0]
        if isinstance(a, Arr):
            return opaque(dom, name, [a], "V")
        return opaque(dom, name + "_s", [a], "R")
    return f


for _n in ("np.sqrt", "np.exp", "np.cos", "np.sin"):
    LIB[_n] = _elementwise_or_scalar(_n)


@model("ndarray.dot", "np.dot")
def _dot(dom, args, kw):
    a, b = args
    if real_mode(dom, a, b):
        from . import libreal
        return libreal.dot(dom, a, b)
    na = dom.run.ghost.get("ndim", {}).get(a.ref, 1)
    nb = dom.run.ghost.get("ndim", {}).get(b.ref, 1) if isinstance(b, Arr) else 1
    if na == 1 and nb == 1:
        ta, tb = vec_of(dom, a), vec_of(dom, b)
        # the same products are summed in the same order: dot is commutative in IEEE arithmetic
        return Sym(dom.comm("dot", Vec, R, ta, tb))
    return opaque(dom, "matdot", [a, b])


@model("ndarray.sum", "ndarray.max", "ndarray.min", "ndarray.prod")
def _reduce(dom, args, kw):
    raise Unsupported("reduction dispatch")


def _make_reduce(name):
    def f(dom, args, kw):
        if real_mode(dom, *args):
            from . import libreal
            return libreal.call(dom, "np." + name, args, kw)
        return opaque(dom, "np." + name, args, "R")
    return f


for _n in ("sum", "max", "min", "prod"):
    LIB["ndarray." + _n] = _make_reduce(_n)


@model("ndarray.nonzero")
def _nonzero(dom, args, kw):
    if real_mode(dom, *args):
        from . import libreal
        return libreal.nonzero(dom, args[0])
    return (opaque(dom, "nonzero", [args[0]]),)


@model("ndarray.diagonal")
def _diagonal(dom, args, kw):
    if real_mode(dom, *args):
        from . import libreal
        return libreal.call(dom, "np.diag", args, kw)
    return opaque(dom, "diagonal", [args[0]])


@model("np.fill_diagonal")
def _fill_diagonal(dom, args, kw):
    from . import libreal
    return libreal.fill_diagonal(dom, args[0], args[1])


@model("arr:getitem")
def _arr_getitem(dom, args, kw):
    a, idx = args
    if isinstance(a, (list, tuple)) or real_mode(dom, a):
        from . import libreal
        return libreal.getitem(dom, a, idx)
    c = dom.run.heap[a.ref]
    if isinstance(c, MatTerm) and c.kind in ("stack", "diffstack") and isinstance(idx, (int, Sym)):
        return new_arr(dom, uf("row", Vec, I, Vec)(mat_term(dom, c), zint(idx)))
    if isinstance(idx, (int, Sym)):
        return Sym(uf("getitem", Vec, I, R)(vec_of(dom, a), zint(idx)))
    if isinstance(idx, tuple) and all(isinstance(i, (int, Sym)) for i in idx):
        return Sym(uf("getitem%d" % len(idx), *([Vec] + [I] * len(idx) + [R]))(vec_of(dom, a), *[zint(i) for i in idx]))
    if isinstance(idx, Arr):
        return opaque(dom, "take", [a, idx])
    if isinstance(idx, slice):
        parts = [p if p is not None else 0 for p in (idx.start, idx.stop, idx.step)]
        flags = tuple(p is None for p in (idx.start, idx.stop, idx.step))
        out = opaque(dom, "slice", [a] + parts, "V", static=flags)
        if flags == (False, True, True):
            # a[k:] along the first axis keeps rows(a) - k rows when 0 <= k <= rows(a) (ground instance)
            ra = uf("rows", Vec, I)(vec_of(dom, a))
            k = zint(idx.start)
            ro = uf("rows", Vec, I)(dom.run.heap[out.ref])
            dom.run.assume(z3.Implies(z3.And(k >= 0, k <= ra), ro == ra - k))
            dom.run.assume(z3.Implies(z3.And(k < 0, -k <= ra), ro == -k))       # a[-k:] keeps the last k rows
        return out
    raise Unsupported(f"opaque array subscript {idx!r}")


@model("arr:setitem")
def _arr_setitem(dom, args, kw):
    a, idx, v = args
    if real_mode(dom, a):
        from . import libreal
        return libreal.setitem(dom, a, idx, v)
    dom.check_write(a.ref, "subscript store")
    tv = vec_of(dom, v) if isinstance(v, Arr) else dom.uf_real(v)
    if isinstance(idx, (int, Sym)):
        ti = zint(idx)
    elif isinstance(idx, Arr):
        ti = vec_of(dom, idx)
    else:
        raise Unsupported("opaque subscript store index")
    dom.run.heap[a.ref] = uf("setitem", Vec, ti.sort(), tv.sort(), Vec)(vec_of(dom, a), ti, tv)
    return None


@model("arr:iter")
def _arr_iter(dom, args, kw):
    a = args[0]
    c = dom.run.heap[a.ref]
    if isinstance(c, ND):
        from . import libreal
        return libreal.iter_rows(dom, a)
    raise Unsupported("iteration over an opaque array")


@model("arr:getflat")
def _getflat(dom, args, kw):
    from . import libreal
    return libreal.getflat(dom, *args)


@model("arr:setflat")
def _setflat(dom, args, kw):
    from . import libreal
    return libreal.setflat(dom, *args)


@model("getattr:finfo.eps")
def _eps(dom, o):
    return o.f["eps"]


@model("np.testing.assert_equal")
def _assert_equal(dom, args, kw):
    a, b = args
    if isinstance(a, Arr) and isinstance(b, Arr):
        eq = LIB["np.array_equal"](dom, [a, b], {})
    else:
        eq = dom.scalar_compare("Eq", a, b)
    if not dom.truth(eq):
        raise PyExc(dom.make_exc("AssertionError", ("arrays are not equal",)))
    return None


@model("np.testing.assert_allclose")
def _assert_allclose(dom, args, kw):
    # development-only self checks (is_check_factorization): modelled as possibly raising AssertionError
    if dom.run.choose("assert_allclose", 2) == 1:
        raise PyExc(dom.make_exc("AssertionError", ("not close",)))
    return None


# ---------------------------------------------------------------------------------------------- bytes (DCSRCH task)
class TaskPrefix(ModelValue):
    __slots__ = ("v", "k")

    def __init__(self, v, k):
        self.v, self.k = v, k


class ShapeV(ModelValue):
    """shape of an opaque array whose rank is not known: indexable by a concrete axis number"""
    __slots__ = ("term",)

    def __init__(self, term):
        self.term = term


@model("shape:getitem")
def _shape_getitem(dom, args, kw):
    sh, idx = args
    if not isinstance(idx, int):
        raise Unsupported("symbolic axis number")
    if idx == 0:
        t = uf("size", Vec, I)(sh.term)      # for a vector, shape[0] is its size
        t0 = uf("rows", Vec, I)(sh.term)       # the same symbol as len(a) and a.shape[0] of a known matrix
        dom.run.assume(t0 >= 0)
        return wrap(t0)
    t = uf("dim%d" % idx, Vec, I)(sh.term)
    dom.run.assume(t >= 0)
    return wrap(t)


TASK_CANON = {0: b"FG", 1: b"CONVERGENCE", 2: b"WARNING", 3: b"ERROR", 4: b"START"}


@model("bytes:getitem")
def _bytes_getitem(dom, args, kw):
    v, idx = args
    if isinstance(idx, slice) and idx.start is None and idx.step is None and isinstance(idx.stop, int):
        return TaskPrefix(v, idx.stop)
    raise Unsupported("subscript of symbolic bytes")


@model("bytes:compare")
def _bytes_compare(dom, args, kw):
    op, a, b = args
    if op not in ("Eq", "NotEq"):
        raise Unsupported("ordering of symbolic bytes")
    if isinstance(b, (TaskPrefix, SymBytes)) and not isinstance(a, (TaskPrefix, SymBytes)):
        a, b = b, a
    if not isinstance(b, bytes):
        raise Unsupported("comparison of symbolic bytes with a non-literal")
    if isinstance(a, TaskPrefix):
        tags = [t for t, s in TASK_CANON.items() if s[:a.k] == b]
        tag = a.v.tag
    else:
        tags = [t for t, s in TASK_CANON.items() if s == b]
        tag = a.tag
    r = wrap(z3.Or(*[z3.BoolVal(False)] + [tag == t for t in tags]))
    return r if op == "Eq" else dom.not_(r)


# ---------------------------------------------------------------------------------------------- logging
@model("Logger.info", "Logger.debug", "Logger.warning", "Logger.error")
def _log(dom, args, kw):
    dom.run.ghost["log_calls"] = dom.run.ghost.get("log_calls", 0) + 1
    return None


# ---------------------------------------------------------------------------------------------- scipy objects
@model("sp.optimize._constraints.old_bound_to_new")
def _old_bound_to_new(dom, args, kw):
    """(n,2) array of (min,max) pairs -> (lb, ub): two fresh arrays, deterministic in the value of `bounds`
    (None entries become -inf / +inf)."""
    b = args[0]
    t = vec_of(dom, b)
    return (new_arr(dom, uf("bounds_lb", Vec, Vec)(t)), new_arr(dom, uf("bounds_ub", Vec, Vec)(t)))


@model("np.repeat")
def _repeat(dom, args, kw):
    a = args[0]
    c = dom.run.heap[a.ref]
    static = (str(c.flat),) if isinstance(c, ND) else ()
    rest = [x for x in args[1:]] + [v for k, v in sorted(kw.items()) if is_model(v)]
    if isinstance(c, ND):
        r = opaque(dom, "np.repeat", rest, "V", static + tuple(f"{k}={v}" for k, v in sorted(kw.items()) if not is_model(v)))
    else:
        r = opaque(dom, "np.repeat", [a] + rest, "V", tuple(f"{k}={v}" for k, v in sorted(kw.items()) if not is_model(v)))
    dom.run.ghost.setdefault("ndim", {})[r.ref] = 2
    return r


@model("sp.optimize.OptimizeResult")
def _optimize_result(dom, args, kw):
    if args:
        raise Unsupported("OptimizeResult positional arguments")
    o = Obj("OptimizeResult", dom.run.new_ref())
    o.f.update(kw)
    return o


# OptimizeResult is a dict whose keys are also attributes
@model("OptimizeResult.get")
def _or_get(dom, args, kw):
    o, key = args[0], args[1]
    default = args[2] if len(args) > 2 else kw.get("default")
    if not isinstance(key, str):
        raise Unsupported("OptimizeResult.get with a non-literal key")
    return o.f.get(key, default)


@model("OptimizeResult.update")
def _or_update(dom, args, kw):
    o = args[0]
    new = dict(kw)
    for extra in args[1:]:
        if isinstance(extra, dict):
            new.update(extra)
        elif isinstance(extra, Obj) and extra.cls == "OptimizeResult":
            new.update(extra.f)
        else:
            raise Unsupported("OptimizeResult.update argument")
    for k, v in new.items():
        dom.setattr(o, k, v)          # frame obligation if the object belongs to the caller
    return None


@model("OptimizeResult.keys")
def _or_keys(dom, args, kw):
    return list(args[0].f.keys())


@model("OptimizeResult.copy")
def _or_copy(dom, args, kw):
    o = Obj("OptimizeResult", dom.run.new_ref())
    o.f.update(args[0].f)
    return o


@model("sp.optimize.LbfgsInvHessProduct")
def _lbfgs_inv_hess(dom, args, kw):
    """LbfgsInvHessProduct(sk, yk) stores its two arguments (fields .sk, .yk)."""
    if len(args) != 2 or kw:
        raise Unsupported("LbfgsInvHessProduct signature")
    o = Obj("LbfgsInvHessProduct", dom.run.new_ref())
    o.f["sk"], o.f["yk"] = args
    dom.run.log.append(("hess_inv_built", args[0].ref, args[1].ref, dom.run.site))
    return o


@model("ndarray.flat")
def _flat(dom, args, kw):
    raise Unsupported("call of ndarray.flat")


@model("deque.extend")
def _dq_extend(dom, args, kw):
    dq, it = args
    for v in (dom.iterate(it) if is_model(it) else list(it)):
        LIB["deque.append"](dom, [dq, v], {})
    return None


@model("deque.extendleft")
def _dq_extendleft(dom, args, kw):
    dq, it = args
    for v in (dom.iterate(it) if is_model(it) else list(it)):
        LIB["deque.appendleft"](dom, [dq, v], {})
    return None


@model("deque.copy")
def _dq_copy(dom, args, kw):
    dq = args[0]
    c = dom.run.heap[dq.ref]
    if isinstance(c, list):
        return dom.run.alloc_deque(list(c))
    return dom.run.alloc_deque(SymDeque(c.a, c.lo, c.hi))


@model("np.issubdtype")
def _issubdtype(dom, args, kw):
    a, b = args
    name = b.name if isinstance(b, LibFn) else str(b)
    if isinstance(a, str):
        if name.endswith("floating"):
            return a.startswith("float")
        if name.endswith("integer"):
            return a.startswith("int")
    raise Unsupported("np.issubdtype on symbolic dtypes")
