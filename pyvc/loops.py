"""Loop treatment: cut by an inductive invariant (unbounded) or complete unrolling with an unwinding obligation."""
import ast

import z3

from .values import BreakEx, ContinueEx, PathEnd, Unsupported, ModelValue
from .sym import Sym, Arr, Obj, DequeV, UserFn, ND
from .domain import RangeV


def _has_quantifier(f, depth=0):
    if z3.is_quantifier(f):
        return True
    if depth > 6 or not z3.is_app(f):
        return False
    return any(_has_quantifier(c, depth + 1) for c in f.children())


def assigned_names(node):
    """Names (re)bound anywhere in the loop (body and orelse), excluding nested function bodies."""
    out = set()

    def walk(n):
        for c in ast.iter_child_nodes(n):
            if isinstance(c, (ast.FunctionDef, ast.Lambda, ast.ClassDef)):
                if isinstance(c, ast.FunctionDef):
                    out.add(c.name)
                continue
            if isinstance(c, ast.Name) and isinstance(c.ctx, ast.Store):
                out.add(c.id)
            if isinstance(c, ast.ExceptHandler) and c.name:
                out.add(c.name)
            walk(c)
    walk(node)
    return out


class DeadLocal(ModelValue):
    """value of a local that is not bound at the loop head (it must be assigned in the body before any use)"""
    __slots__ = ("name",)

    def __init__(self, name):
        self.name = name


class Unroll:
    kind = "unroll"

    def __init__(self, bound):
        self.bound = bound


def describe(run, v, depth=0):
    if isinstance(v, Sym):
        return ("sym", str(v.e.sort()))
    if isinstance(v, Arr):
        c = run.heap.get(v.ref)
        return ("arr", run.region.get(v.ref), type(c).__name__ if not hasattr(c, "sort") else "Vec",
                v.ref in run.frozen)
    if isinstance(v, DequeV):
        c = run.heap.get(v.ref)
        return ("deque", run.region.get(v.ref), "conc%d" % len(c) if isinstance(c, list) else "sym")
    if isinstance(v, Obj):
        if depth > 1:
            return ("obj", v.clsname)
        return ("obj", v.clsname, run.region.get(v.ref),
                tuple(sorted((k, describe(run, x, depth + 1)) for k, x in v.f.items())))
    if isinstance(v, UserFn):
        return ("user", v.name)
    if isinstance(v, (int, float, str, bytes, bool, type(None))):
        return ("c", v)
    if isinstance(v, (tuple, list)):
        return tuple(describe(run, x, depth + 1) for x in v)
    if isinstance(v, dict):
        return tuple(sorted((str(k), describe(run, x, depth + 1)) for k, x in v.items()))
    return ("other", type(v).__name__, getattr(v, "qualname", getattr(v, "name", "")))


class Cut:
    """Cut a loop with an invariant.

    inv(interp, env, phase)   -> list of (label, formula|bool, props)     phase in established|assume|preserved
    havoc(interp, env)        -> rebinds every loop-modified local / heap cell to a generic value
    The path condition is reset at the cut to the function's `base_pc` (facts about parameters), so that the
    body is verified from the invariant alone; the continuation is explored once per state fingerprint.
    """
    kind = "cut"

    def __init__(self, inv, havoc, shared=None, extra_modified=()):
        self.inv, self.havoc = inv, havoc
        self.shared = shared if shared is not None else {}
        self.extra_modified = set(extra_modified)

    def _check(self, interp, env, name, phase):
        run = interp.dom.run
        for lab, f, props in self.inv(interp, env, phase):
            run.oblige(f"{name}::{phase}::{lab}", f, props)

    def _enter(self, interp, node, env, info, k):
        run = interp.dom.run
        name = f"{info.qualname}::loop#{k}"
        self._check(interp, env, name, "established")
        mods = assigned_names(node) | self.extra_modified
        self.pre_cut(interp, env)
        pre_bound = {nm for nm in mods if env.has(nm)}
        havocked = self.havoc(interp, env)
        missing = mods - set(havocked)
        # a name first bound inside the loop (a new temporary) is dead at the loop head: poisoned, not an error
        for nm in sorted(missing - pre_bound):
            env.set(nm, DeadLocal(nm))
        missing &= pre_bound
        if missing:
            raise Unsupported(f"{name}: invariant does not havoc loop-modified variables {sorted(missing)}")
        run.reset_pc(run.ghost.get("base_pc", []))
        run.ghost["cut_depth"] = run.ghost.get("cut_depth", 0) + 1
        for lab, f, props in self.inv(interp, env, "assume"):
            if z3.is_expr(f) and _has_quantifier(f):
                run.assume_q(f)
            else:
                run.assume(f)
        live = self.live_names(node, info)
        fp = (name, tuple(sorted((kk, describe(run, vv)) for kk, vv in self._all_vars(env).items()
                                 if live is None or kk in live)))
        seen = self.shared.setdefault("cut_seen", set())
        if fp in seen and not run.prefix[len(run.decisions):]:
            # the same generic state was (or is being) explored from another pre-loop path
            run.notes.append(f"{name}: continuation shared")
            raise PathEnd()
        seen.add(fp)
        return name

    def pre_cut(self, interp, env):
        pass

    @staticmethod
    def live_names(node, info):
        """Names read by the loop and by the statements that follow it in the function body (the continuation).
        None when the loop is not a top-level statement of its function (then every variable is kept)."""
        body = info.node.body
        for i, st in enumerate(body):
            if st is node:
                rest = body[i:]
                out = set()
                for st2 in rest:
                    for x in ast.walk(st2):
                        if isinstance(x, ast.Name):
                            out.add(x.id)
                return out
        return None

    @staticmethod
    def _all_vars(env):
        out = {}
        e = env
        chain = []
        while e is not None and e.parent is not None:
            chain.append(e)
            e = e.parent
        for e in reversed(chain):
            out.update(e.v)
        return out

    def run_while(self, interp, node, env, info, k):
        name = self._enter(interp, node, env, info, k)
        if interp.truth(interp.eval(node.test, env)):
            try:
                interp.exec_block(node.body, env)
            except BreakEx:
                return
            except ContinueEx:
                pass
            self._check(interp, env, name, "preserved")
            raise PathEnd()
        interp.exec_block(node.orelse, env)

    def run_for(self, interp, node, env, info, k, it):
        """`for i in range(n)` with symbolic n: inv(interp, env, phase) may read env['__i'] (the number of completed
        iterations).  established at __i = 0; body from a generic __i in [0, n); exit state: __i == max(n, 0)."""
        run = interp.dom.run
        if not isinstance(it, RangeV):
            raise Unsupported("cut of a for loop over something else than range(n)")
        from .sym import zint, Sym
        n = zint(it.n)
        name = f"{info.qualname}::loop#{k}"
        env.set("__i", 0)
        self._check(interp, env, name, "established")
        mods = assigned_names(node) | self.extra_modified
        havocked = set(self.havoc(interp, env)) | {"__i"}
        missing = mods - havocked
        if missing:
            raise Unsupported(f"{name}: invariant does not havoc loop-modified variables {sorted(missing)}")
        run.reset_pc(run.ghost.get("base_pc", []))
        i = run.fresh("for_i", z3.IntSort())
        env.set("__i", Sym(i))
        run.assume(i >= 0)
        for lab, f, props in self.inv(interp, env, "assume"):
            if z3.is_expr(f) and _has_quantifier(f):
                run.assume_q(f)
            else:
                run.assume(f)
        if run.choose(name + ":body_or_exit", 2) == 0:
            run.assume(i < n)
            interp.assign(node.target, it.value_at(Sym(i)), env)
            try:
                interp.exec_block(node.body, env)
            except BreakEx:
                return
            except ContinueEx:
                pass
            env.set("__i", Sym(z3.simplify(i + 1)))
            self._check(interp, env, name, "preserved")
            raise PathEnd()
        run.assume(i == z3.If(n >= 0, n, 0))
        interp.exec_block(node.orelse, env)
