"""Exploration + discharge harness shared by all proof units."""
import os
import time
import traceback

import z3

from .values import Unsupported, PathEnd, PyExc
from .sym import Run, explore
from .interp import Program, Interp
from .domain import Domain
from .lib import LIB
from . import solve

REPO = os.environ.get("LBFGSB_REPO", "/repo")
_program = None


def program():
    global _program
    if _program is None:
        _program = Program(REPO)
    return _program


def session(run, user_may_raise=True):
    """Fresh interpreter + domain for one path."""
    from contracts.common import install_user_models
    dom = Domain(run, LIB)
    dom.user_may_raise = user_may_raise
    install_user_models(dom)
    it = Interp(program(), dom)
    return it, dom


class Result:
    """Plain-data record of one obligation instance (picklable)."""
    __slots__ = ("name", "status", "backend", "time", "props", "site", "info", "model", "path", "label", "smt2",
                 "goal")

    def __init__(self, ob, label):
        self.name, self.status, self.backend, self.time = ob.name, ob.status, ob.backend, ob.time
        self.props, self.site, self.info, self.model = ob.props, ob.site, ob.info, ob.model
        self.path, self.label = ob.path, label
        self.smt2 = None
        self.goal = str(ob.goal)[:400]

    def as_dict(self):
        return {k: getattr(self, k) for k in self.__slots__}


class UnitReport:
    def __init__(self, name):
        self.name = name
        self.results = []
        self.paths = 0
        self.errors = []           # checker errors (Unsupported, crashes)
        self.covers = []           # (label, ok)
        self.notes = []
        self.wall = 0.0
        self.functions = set()

    def merge(self, other):
        self.results.extend(other.results)
        self.paths += other.paths
        self.errors.extend(other.errors)
        self.covers.extend(other.covers)
        self.notes.extend(other.notes)
        self.functions |= other.functions

    def by_status(self, st):
        return [r for r in self.results if r.status == st]


def run_program(label, prog, mode="uf", keep_smt=0, timeout_ms=None, filter_names=None, filter_obs=None):
    """Explore all paths of `prog` (a function of a Run), discharge every obligation.  Returns a UnitReport."""
    rep = UnitReport(label)
    t0 = time.time()
    try:
        runs = explore(prog, mode=mode)
    except Unsupported as e:
        rep.errors.append(f"{label}: unsupported: {e}")
        rep.wall = time.time() - t0
        return rep
    except PyExc as e:
        rep.errors.append(f"{label}: uncaught interpreted exception {e.exc!r}\n{traceback.format_exc()[-1500:]}")
        rep.wall = time.time() - t0
        return rep
    except Exception as e:
        rep.errors.append(f"{label}: checker crash {type(e).__name__}: {e}\n{traceback.format_exc()[-2500:]}")
        rep.wall = time.time() - t0
        return rep
    rep.paths = len(runs)
    kept = 0
    seen = set()
    for run in runs:
        for c in run.ghost.get("covers", []):
            rep.covers.append(c)
        rep.notes.extend(run.notes)
        for ob in run.obls:
            if filter_names is not None and not filter_names(ob.name):
                continue
            if filter_obs is not None and not filter_obs(ob):
                continue
            # replayed prefixes regenerate the obligations of the shared prefix: one instance is enough
            key = (ob.name, tuple(ob.path), len(ob.pc), ob.site)
            if key in seen:
                continue
            seen.add(key)
            solve.discharge(ob, timeout_ms, hard=(mode == "real"))
            r = Result(ob, label)
            if kept < keep_smt and ob.backend in ("z3", "cvc5"):
                try:
                    r.smt2 = solve.smt2_of(ob, 2500)
                    kept += 1
                except Exception:
                    pass
            rep.results.append(r)
    rep.wall = time.time() - t0
    return rep


def cover(run, label):
    """Vacuity guard: the current path condition must be satisfiable."""
    ok = run.feasible(z3.BoolVal(True))
    run.ghost.setdefault("covers", []).append((label, bool(ok)))
    return ok
