"""Symbolic state of one path: values, heap, regions, path condition, obligations.

A path is one deterministic run of the interpreter under a *decision prefix* (list of booleans).  At a branch whose
condition is symbolic and not decided by the path condition both sides are checked for feasibility, one is followed
and the other prefix is queued.  Fresh-symbol names are counter based, so a replay of the same prefix is reproducible.
"""
import itertools
from fractions import Fraction

import z3

Vec = z3.DeclareSort("Vec")          # value of an ndarray whose shape/contents are opaque (UF domain)
R, I, B = z3.RealSort(), z3.IntSort(), z3.BoolSort()
INF = float("inf")


from .values import Unsupported, PathEnd, ModelValue  # noqa: E402,F401


class Sym(ModelValue):
    """A symbolic scalar (z3 Int / Real / Bool)."""
    __slots__ = ("e",)

    def __init__(self, e):
        self.e = e

    def __repr__(self):
        return f"Sym({self.e})"

    @property
    def sort(self):
        return self.e.sort()


class Arr(ModelValue):
    """Reference to an ndarray in the heap.  run.heap[ref] is a z3 Vec term (UF domain), an ND (fixed-shape domain)
    or a structured matrix term (MatTerm)."""
    __slots__ = ("ref",)

    def __init__(self, ref):
        self.ref = ref

    def __repr__(self):
        return f"Arr#{self.ref}"


class ND:
    """Fixed-shape array content: shape tuple + flat row-major list of scalars (python numbers / z3 terms / bools)."""
    __slots__ = ("shape", "flat")

    def __init__(self, shape, flat):
        self.shape, self.flat = tuple(shape), list(flat)
        n = 1
        for k in self.shape:
            n *= k
        assert n == len(self.flat), (shape, len(self.flat))

    def __repr__(self):
        return f"ND{self.shape}{self.flat}"

    @property
    def ndim(self):
        return len(self.shape)


class MatTerm:
    """Structured opaque matrix value in the UF domain (e.g. stack of a deque, its row differences)."""
    __slots__ = ("kind", "args")

    def __init__(self, kind, *args):
        self.kind, self.args = kind, args

    def __repr__(self):
        return f"Mat[{self.kind}]"


class Obj(ModelValue):
    """Instance of a repository class or of a modelled library class (cls is a ClassV or a str)."""
    __slots__ = ("cls", "ref", "f")

    def __init__(self, cls, ref):
        self.cls, self.ref, self.f = cls, ref, {}

    @property
    def clsname(self):
        return self.cls if isinstance(self.cls, str) else self.cls.name

    def __repr__(self):
        return f"<{self.clsname}#{self.ref}>"


class DequeV(ModelValue):
    """Reference to a deque.  run.heap[ref] is a python list of element values (concrete length) or a SymDeque."""
    __slots__ = ("ref",)

    def __init__(self, ref):
        self.ref = ref

    def __repr__(self):
        return f"Deque#{self.ref}"


class SymDeque:
    """Deque of array *values* with symbolic length: cells a[lo..hi-1] (z3 Array Int Vec), no shifting."""
    __slots__ = ("a", "lo", "hi")

    def __init__(self, a, lo, hi):
        self.a, self.lo, self.hi = a, lo, hi


class UserFn(ModelValue):
    """A user callable: uninterpreted, deterministic in the values of its arguments, may raise, may retain args."""

    __slots__ = ("name", "kind")

    def __init__(self, name, kind):
        self.name, self.kind = name, kind

    def __repr__(self):
        return f"<user {self.name}>"


class LibFn(ModelValue):
    __slots__ = ("name",)

    def __init__(self, name):
        self.name = name

    def __repr__(self):
        return f"<lib {self.name}>"


class Module(ModelValue):
    __slots__ = ("name",)

    def __init__(self, name):
        self.name = name

    def __repr__(self):
        return f"<module {self.name}>"


class SymBytes(ModelValue):
    """Symbolic bytes value known only through a finite tag (DCSRCH task strings)."""
    __slots__ = ("tag",)

    def __init__(self, tag):
        self.tag = tag


class ExcV(ModelValue):
    """An exception object.  cls is a class name (str) or None for a symbolic class (user raised)."""
    __slots__ = ("cls", "args", "tag", "cause", "isa", "id")
    _ids = itertools.count(1)

    def __init__(self, cls, args=(), tag=None, cause=None):
        self.cls, self.args, self.tag, self.cause = cls, tuple(args), tag, cause
        self.isa = {}            # class name -> z3 Bool / python bool (answers given so far)
        self.id = next(ExcV._ids)

    def __repr__(self):
        return f"<exc {self.cls or 'K?'} tag={self.tag}>"


class Obligation:
    __slots__ = ("name", "pc", "goal", "props", "backend", "site", "status", "model", "time", "info", "path")

    def __init__(self, name, pc, goal, props=(), backend="z3", site=None, info=None, path=None):
        self.name, self.pc, self.goal, self.props = name, pc, goal, tuple(props)
        self.backend, self.site, self.info, self.path = backend, site, info, path
        self.status, self.model, self.time = None, None, 0.0


def is_sym(v):
    return isinstance(v, Sym)


def zexpr(v):
    """python scalar / Sym -> z3 expression."""
    if isinstance(v, Sym):
        return v.e
    if isinstance(v, bool):
        return z3.BoolVal(v)
    if isinstance(v, int):
        return z3.IntVal(v)
    if isinstance(v, float):
        if v != v or v in (INF, -INF):
            raise Unsupported(f"non-finite constant {v} in a z3 term")
        return z3.RealVal(str(Fraction(v)))
    if isinstance(v, Fraction):
        return z3.RealVal(str(v))
    if z3.is_expr(v):
        return v
    try:
        import numbers
        if isinstance(v, numbers.Integral):
            return z3.IntVal(int(v))
        if isinstance(v, numbers.Real):
            return zexpr(float(v))
    except Exception:
        pass
    raise Unsupported(f"cannot turn {v!r} into a z3 term")


def zreal(v):
    e = zexpr(v)
    if e.sort() == I:
        return z3.ToReal(e)
    if e.sort() == B:
        return z3.If(e, z3.RealVal(1), z3.RealVal(0))
    return e


def zint(v):
    e = zexpr(v)
    if e.sort() == B:
        return z3.If(e, z3.IntVal(1), z3.IntVal(0))
    return e


def zbool(v):
    if isinstance(v, Sym):
        e = v.e
        if e.sort() == B:
            return e
        if e.sort() == I:
            return e != 0
        return e != 0
    if z3.is_expr(v):
        return v
    return z3.BoolVal(bool(v))


def wrap(e):
    """z3 term -> Sym, simplifying constants back to python values."""
    if not z3.is_expr(e):
        return e
    e = z3.simplify(e)
    if z3.is_true(e):
        return True
    if z3.is_false(e):
        return False
    if z3.is_int_value(e):
        return e.as_long()
    return Sym(e)


_uf_cache = {}


def uf(name, *sorts):
    """Uninterpreted function by name (sorts: argument sorts..., result sort)."""
    key = (name,) + tuple(str(s) for s in sorts)
    f = _uf_cache.get(key)
    if f is None:
        f = z3.Function(name, *sorts)
        _uf_cache[key] = f
    return f


def is_intlike(v):
    if isinstance(v, bool):
        return True
    if isinstance(v, int):
        return True
    if isinstance(v, Sym):
        return v.e.sort() in (I, B)
    try:
        import numbers
        return isinstance(v, numbers.Integral)
    except Exception:
        return False


def fop(name, a, b):
    """Uninterpreted IEEE operation on two reals.  Commutativity of fadd/fmul/vadd/vmul/dot (IEEE-754 + and * are
    commutative) is supplied as ground instances by Domain.comm at every creation site in executed code."""
    return uf(name, R, R, R)(a, b)


class Run:
    """State of one path."""

    def __init__(self, prefix=(), mode="uf", timeout_ms=5000):
        self.prefix, self.decisions, self.pending = list(prefix), [], []
        self.mode = mode
        self.pc = []
        self.solver = z3.Solver()
        self.solver.set("timeout", timeout_ms)
        self.heap, self.region, self.frozen = {}, {}, {}
        self.qfacts = set()
        self.nref = itertools.count(1)
        self.nsym = itertools.count(1)
        self.ghost = {}
        self.obls = []
        self.log = []                 # event log (user calls, evaluation points, ...)
        self.alloc_region = "local"
        self.defaults_cache = {}
        self.tags = {}
        self.branch_hook = None
        self.nbranch_checks = 0
        self.site = None
        self.notes = []

    # ---- symbols / heap
    def fresh(self, name, sort):
        return z3.Const(f"{name}!{next(self.nsym)}", sort)

    def fresh_sym(self, name, sort):
        return Sym(self.fresh(name, sort))

    def alloc(self, content, region=None):
        r = next(self.nref)
        self.heap[r] = content
        self.region[r] = region or self.alloc_region
        return Arr(r)

    def new_ref(self, region=None):
        r = next(self.nref)
        self.region[r] = region or self.alloc_region
        return r

    def alloc_deque(self, content, region=None):
        r = next(self.nref)
        self.heap[r] = content
        self.region[r] = region or self.alloc_region
        return DequeV(r)

    def val(self, a):
        return self.heap[a.ref]

    # ---- path condition
    def assume(self, f):
        if f is True:
            return
        if f is False:
            raise PathEnd()
        if isinstance(f, Sym):
            f = f.e
        self.pc.append(f)
        self.solver.add(f)

    def assume_q(self, f):
        """Assume a quantified fact: it joins the path condition of every later obligation but is kept out of the
        incremental feasibility solver (branch feasibility is then over-approximated, which is sound)."""
        self.pc.append(f)
        self.qfacts.add(f.get_id())

    def reset_pc(self, keep):
        self.pc = list(keep)
        self.solver = z3.Solver()
        self.solver.set("timeout", 5000)
        for f in self.pc:
            if f.get_id() not in self.qfacts:
                self.solver.add(f)

    def oblige(self, name, goal, props=(), backend="z3", info=None):
        if isinstance(goal, Sym):
            goal = goal.e
        if isinstance(goal, bool):
            goal = z3.BoolVal(goal)
            if backend == "z3":
                backend = "structural"
        self.obls.append(Obligation(name, list(self.pc), goal, props, backend, self.site, info,
                                    path=list(self.decisions)))

    def feasible(self, f):
        self.nbranch_checks += 1
        self.solver.push()
        self.solver.add(f)
        r = self.solver.check()
        self.solver.pop()
        return r != z3.unsat

    def entails(self, f):
        """True iff pc => f is proved (unknown counts as not proved)."""
        self.solver.push()
        self.solver.add(z3.Not(f))
        r = self.solver.check()
        self.solver.pop()
        return r == z3.unsat

    def branch(self, cond):
        """Decide a branch condition on this path (forking when both sides are feasible)."""
        if isinstance(cond, bool):
            return cond
        if cond is None:
            return False
        if isinstance(cond, Sym):
            c = zbool(cond)
        elif z3.is_expr(cond):
            c = cond
        else:
            return self.truth(cond)
        c = z3.simplify(c)
        if z3.is_true(c):
            return True
        if z3.is_false(c):
            return False
        i = len(self.decisions)
        if i < len(self.prefix):
            d = self.prefix[i]
        else:
            ft, ff = self.feasible(c), self.feasible(z3.Not(c))
            if ft and ff:
                d = True
                self.pending.append(self.decisions + [False])
            elif ft:
                d = True
            elif ff:
                d = False
            else:
                raise PathEnd()
        self.decisions.append(d)
        self.assume(c if d else z3.Not(c))
        return d

    def choose(self, label, n):
        """Non-deterministic choice among n alternatives (binary decisions, all feasible)."""
        k = 0
        while k < n - 1:
            i = len(self.decisions)
            if i < len(self.prefix):
                d = self.prefix[i]
            else:
                d = True
                self.pending.append(self.decisions + [False])
            self.decisions.append(d)
            if d:
                return k
            k += 1
        return n - 1

    def truth(self, v):
        if isinstance(v, (Arr, Obj, UserFn, LibFn, Module, ExcV)):
            if isinstance(v, Arr):
                raise Unsupported("truth value of a symbolic array")
            return True
        if isinstance(v, DequeV):
            c = self.heap[v.ref]
            if isinstance(c, list):
                return len(c) > 0
            return self.branch(c.hi - c.lo > 0)
        return bool(v)


def explore(program, mode="uf", max_paths=200000, on_path=None):
    """program(run) executes one path.  Returns the list of finished runs (all paths)."""
    work, done = [[]], []
    while work:
        prefix = work.pop()
        run = Run(prefix, mode=mode)
        try:
            program(run)
        except PathEnd:
            pass
        work.extend(run.pending)
        done.append(run)
        if on_path is not None:
            on_path(run)
        if len(done) > max_paths:
            raise Unsupported(f"path explosion (> {max_paths} paths)")
    return done
