"""Discharge obligations: z3 first, cvc5 (CLI, SMT-LIB export) on unknown.  unknown/timeout is never a violation."""
import os
import subprocess
import tempfile
import time

import z3

Z3_TIMEOUT_MS = int(os.environ.get("PYVC_Z3_TIMEOUT_MS", "10000"))
CVC5_TIMEOUT_S = int(os.environ.get("PYVC_CVC5_TIMEOUT_S", "10"))
STATS = {"z3": [0, 0.0], "cvc5": [0, 0.0], "structural": [0, 0.0], "frame": [0, 0.0], "sympy": [0, 0.0],
         "flow": [0, 0.0], "last_chance": [0, 0.0]}
LAST_CHANCE = [int(os.environ.get("PYVC_LAST_CHANCE", "4"))]


def model_to_dict(m, limit=80):
    out = {}
    for d in m.decls():
        try:
            v = m[d]
            s = str(v)
            if len(s) > 300:
                s = s[:300] + "..."
            out[d.name()] = s
        except Exception:
            pass
        if len(out) >= limit:
            break
    return out


def cvc5_check(smt2, timeout_s):
    with tempfile.NamedTemporaryFile("w", suffix=".smt2", delete=False) as f:
        f.write("(set-logic ALL)\n" + smt2 + "\n")
        path = f.name
    try:
        r = subprocess.run(["/usr/bin/cvc5", "--tlimit", str(timeout_s * 1000), path], capture_output=True,
                           text=True, timeout=timeout_s + 10)
        out = r.stdout.strip().splitlines()
        return out[0] if out else "unknown"
    except Exception:
        return "unknown"
    finally:
        os.unlink(path)


def _collect_apps(fs, names):
    """all applications of the named uninterpreted functions occurring (outside binders) in the formulas"""
    out, seen, stack = {}, set(), list(fs)
    while stack:
        e = stack.pop()
        if not z3.is_app(e) or e.get_id() in seen:
            continue
        seen.add(e.get_id())
        nm = e.decl().name()
        if nm in names:
            out[e.get_id()] = e
        stack.extend(e.children())
    return list(out.values())


def ground_axioms(fs):
    """Ground instances of the library axiom schemas for the terms that occur in the query (complete for the
    quantifier-free queries they are used in, and keeps counter-models available):
      clip(x,l,u):  all_le(l,u) => l <= clip <= u ;  l <= x <= u => clip == x          (np.clip without NaN)
      dot(v,v) >= 0 ;  a,b >= 0 => fmul(a,b) >= 0                                      (IEEE signs without NaN)
      dot(a-b, c-d) == dot(b-a, d-c)                                                   (exact negation)"""
    inst = []
    for t in _collect_apps(fs, {"clip", "dot", "fmul"}):
        nm = t.decl().name()
        if nm == "clip" and t.num_args() == 3:
            x, lo, hi = t.arg(0), t.arg(1), t.arg(2)
            le = z3.Function("all_le", x.sort(), x.sort(), z3.BoolSort())
            inst.append(z3.Implies(le(lo, hi), z3.And(le(lo, t), le(t, hi))))
            inst.append(z3.Implies(z3.And(le(lo, x), le(x, hi)), t == x))
        elif nm == "dot" and t.num_args() == 2:
            a, b = t.arg(0), t.arg(1)
            if z3.eq(a, b):
                inst.append(t >= 0)
            if z3.is_app(a) and z3.is_app(b) and a.decl().name() == "vsub" and b.decl().name() == "vsub":
                # (a-b).(c-d) == (b-a).(d-c): IEEE negation is exact, the products and their sum are unchanged
                inst.append(t == t.decl()(a.decl()(a.arg(1), a.arg(0)), b.decl()(b.arg(1), b.arg(0))))
        elif nm == "fmul" and t.num_args() == 2:
            inst.append(z3.Implies(z3.And(t.arg(0) >= 0, t.arg(1) >= 0), t >= 0))
    return inst


def _check_forked(solver, hard_s):
    """Run solver.check() in a forked child with a HARD wall-clock limit (z3's own timeout is not always honoured by
    the nonlinear-arithmetic engine).  Returns ('unsat'|'sat'|'unknown', model_dict|None)."""
    import pickle
    import select
    import signal
    r, w = os.pipe()
    pid = os.fork()
    if pid == 0:
        try:
            os.close(r)
            res = solver.check()
            payload = (str(res), model_to_dict(solver.model()) if res == z3.sat else None)
            os.write(w, pickle.dumps(payload))
        except BaseException:
            pass
        finally:
            os._exit(0)
    os.close(w)
    out = ("unknown", None)
    try:
        ready, _, _ = select.select([r], [], [], hard_s)
        if ready:
            data = b""
            while True:
                chunk = os.read(r, 1 << 16)
                if not chunk:
                    break
                data += chunk
            if data:
                out = pickle.loads(data)
    finally:
        try:
            os.kill(pid, signal.SIGKILL)
        except OSError:
            pass
        try:
            os.waitpid(pid, 0)
        except OSError:
            pass
        os.close(r)
    return out


def discharge(ob, timeout_ms=None, use_cvc5=True, hard=False):
    t0 = time.time()
    if ob.backend in ("structural", "frame", "flow", "sympy") or z3.is_true(ob.goal) or z3.is_false(ob.goal):
        # structurally decided obligations still need a reachable path to count as refuted
        if z3.is_true(ob.goal):
            ob.status = "proved"
        else:
            s = z3.Solver()
            s.set("timeout", timeout_ms or Z3_TIMEOUT_MS)
            s.add(*ob.pc)
            r = s.check()
            if r == z3.unsat:
                ob.status = "proved"            # path infeasible
            elif r == z3.sat:
                ob.status = "refuted"
                ob.model = model_to_dict(s.model())
            else:
                ob.status = "unknown"
        ob.time = time.time() - t0
        k = ob.backend if ob.backend in STATS else "structural"
        STATS[k][0] += 1
        STATS[k][1] += ob.time
        return ob.status
    s = z3.Solver()
    s.set("timeout", timeout_ms or Z3_TIMEOUT_MS)
    s.add(*ob.pc)
    s.add(z3.Not(ob.goal))
    s.add(*ground_axioms(list(ob.pc) + [ob.goal]))
    hard_model = None
    if hard:
        budget = (timeout_ms or Z3_TIMEOUT_MS) / 1000.0
        rs, hard_model = _check_forked(s, budget + 5.0)
        if rs == "unknown":
            # nonlinear arithmetic is unstable: one retry with other seeds and twice the budget before giving up
            s2 = z3.Solver()
            s2.set("timeout", int(2000 * budget))
            s2.set("random_seed", 7)
            s2.add(*s.assertions())
            try:
                z3.set_param("nlsat.seed", 11)
            except Exception:
                pass
            rs, hard_model = _check_forked(s2, 2 * budget + 5.0)
            try:
                z3.set_param("nlsat.seed", 0)
            except Exception:
                pass
        r = {"unsat": z3.unsat, "sat": z3.sat}.get(rs, z3.unknown)
    else:
        r = s.check()
    ob.backend = "z3"
    if r == z3.unsat:
        ob.status = "proved"
    elif r == z3.sat:
        ob.status = "refuted"
        ob.model = hard_model if hard else model_to_dict(s.model())
    else:
        ob.status = "unknown"
        if use_cvc5:
            t1 = time.time()
            try:
                res = cvc5_check(s.to_smt2(), CVC5_TIMEOUT_S)
            except Exception:
                res = "unknown"
            STATS["cvc5"][0] += 1
            STATS["cvc5"][1] += time.time() - t1
            if res == "unsat":
                ob.status = "proved"
                ob.backend = "cvc5"
        if ob.status == "unknown" and LAST_CHANCE[0] > 0:
            # last chance (a loaded machine must not turn a provable obligation into "undecided"): fresh solver, other
            # seed, four times the budget, hard wall-clock limit; at most a few per process
            LAST_CHANCE[0] -= 1
            budget = (timeout_ms or Z3_TIMEOUT_MS) / 1000.0
            s3 = z3.Solver()
            s3.set("timeout", int(4000 * budget))
            s3.set("random_seed", 23)
            s3.add(*s.assertions())
            rs, m3 = _check_forked(s3, 4 * budget + 5.0)
            STATS["last_chance"][0] += 1
            if rs == "unsat":
                ob.status = "proved"
            elif rs == "sat":
                ob.status = "refuted"
                ob.model = m3
    ob.time = time.time() - t0
    STATS["z3"][0] += 1
    STATS["z3"][1] += ob.time
    return ob.status


def smt2_of(ob, limit=4000):
    s = z3.Solver()
    s.add(*ob.pc)
    s.add(z3.Not(ob.goal))
    s.add(*ground_axioms(list(ob.pc) + [ob.goal]))
    txt = s.to_smt2()
    return txt if len(txt) <= limit else txt[:limit] + "\n; ... truncated"
