"""Discharge obligations: z3 first, cvc5 (CLI, SMT-LIB export) on unknown.  unknown/timeout is never a violation."""
import os
import subprocess
import tempfile
import time

import z3

Z3_TIMEOUT_MS = int(os.environ.get("PYVC_Z3_TIMEOUT_MS", "20000"))
CVC5_TIMEOUT_S = int(os.environ.get("PYVC_CVC5_TIMEOUT_S", "20"))
STATS = {"z3": [0, 0.0], "cvc5": [0, 0.0], "structural": [0, 0.0], "frame": [0, 0.0], "sympy": [0, 0.0],
         "flow": [0, 0.0]}


def model_to_dict(m, limit=80):
    out = {}
    for d in m.decls():
        try:
            v = m[d]
            s = str(v)
            if len(s) > 300:
                s = s[:300] + "..."
            out[d.name()] = s
        except Exception:
            pass
        if len(out) >= limit:
            break
    return out


def cvc5_check(smt2, timeout_s):
    with tempfile.NamedTemporaryFile("w", suffix=".smt2", delete=False) as f:
        f.write("(set-logic ALL)\n" + smt2 + "\n")
        path = f.name
    try:
        r = subprocess.run(["/usr/bin/cvc5", "--tlimit", str(timeout_s * 1000), path], capture_output=True,
                           text=True, timeout=timeout_s + 10)
        out = r.stdout.strip().splitlines()
        return out[0] if out else "unknown"
    except Exception:
        return "unknown"
    finally:
        os.unlink(path)


def discharge(ob, timeout_ms=None, use_cvc5=True):
    t0 = time.time()
    if ob.backend in ("structural", "frame", "flow", "sympy") or z3.is_true(ob.goal) or z3.is_false(ob.goal):
        # structurally decided obligations still need a reachable path to count as refuted
        if z3.is_true(ob.goal):
            ob.status = "proved"
        else:
            s = z3.Solver()
            s.set("timeout", timeout_ms or Z3_TIMEOUT_MS)
            s.add(*ob.pc)
            r = s.check()
            if r == z3.unsat:
                ob.status = "proved"            # path infeasible
            elif r == z3.sat:
                ob.status = "refuted"
                ob.model = model_to_dict(s.model())
            else:
                ob.status = "unknown"
        ob.time = time.time() - t0
        k = ob.backend if ob.backend in STATS else "structural"
        STATS[k][0] += 1
        STATS[k][1] += ob.time
        return ob.status
    s = z3.Solver()
    s.set("timeout", timeout_ms or Z3_TIMEOUT_MS)
    s.add(*ob.pc)
    s.add(z3.Not(ob.goal))
    r = s.check()
    ob.backend = "z3"
    if r == z3.unsat:
        ob.status = "proved"
    elif r == z3.sat:
        ob.status = "refuted"
        ob.model = model_to_dict(s.model())
    else:
        ob.status = "unknown"
        if use_cvc5:
            t1 = time.time()
            try:
                res = cvc5_check(s.to_smt2(), CVC5_TIMEOUT_S)
            except Exception:
                res = "unknown"
            STATS["cvc5"][0] += 1
            STATS["cvc5"][1] += time.time() - t1
            if res == "unsat":
                ob.status = "proved"
                ob.backend = "cvc5"
    ob.time = time.time() - t0
    STATS["z3"][0] += 1
    STATS["z3"][1] += ob.time
    return ob.status


def smt2_of(ob, limit=4000):
    s = z3.Solver()
    s.add(*ob.pc)
    s.add(z3.Not(ob.goal))
    txt = s.to_smt2()
    return txt if len(txt) <= limit else txt[:limit] + "\n; ... truncated"
