"""Native replay for C19: compare the real exported gradient with an 8th-order central difference of the real
function at a given point.   usage: bench_replay.py <name> <json list of coordinates>"""
import json
import sys

import numpy as np

import lbfgsb.benchmarks as B

name, pt = sys.argv[1], np.array(json.loads(sys.argv[2]), dtype=float)
f, g = getattr(B, name), getattr(B, name + "_grad")
c = np.array([-1 / 280, 4 / 105, -1 / 5, 4 / 5])
h = 1e-2
fd = np.zeros_like(pt)
for i in range(pt.size):
    e = np.zeros_like(pt)
    e[i] = 1.0
    fd[i] = sum(ck * (f(pt + (4 - k) * h * e) - f(pt - (4 - k) * h * e)) for k, ck in enumerate(c)) / h
gr = g(pt.copy())
err = float(np.max(np.abs(gr - fd)))
print(json.dumps({"point": pt.tolist(), "gradient": np.asarray(gr).tolist(), "finite_difference": fd.tolist(),
                  "max_abs_diff": err, "confirmed": bool(err > 1e-5 * max(1.0, float(np.max(np.abs(fd)))))}))
