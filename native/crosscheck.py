"""Interpreter cross-check (soundness guard, run under /venv/bin/python): the SAME ast walker that generates the
verification conditions executes the repository's functions on concrete numpy values (library calls native) and the
results are compared bit for bit with the natively executed package.  A disagreement means the walker misrepresents
Python semantics (control flow, closures, exceptions, augmented assignment, ...): checker error, never a verdict.
"""
import json
import sys
import os

import numpy as np

sys.path.insert(0, os.path.dirname(os.path.dirname(os.path.abspath(__file__))))
from pyvc.interp import Program, Interp      # noqa: E402

import lbfgsb                                 # noqa: E402
from lbfgsb.benchmarks import rosenbrock, rosenbrock_grad, beale, beale_grad   # noqa: E402

REPO = os.path.dirname(os.path.dirname(lbfgsb.__file__))


def same(a, b):
    for k in ("x", "fun", "jac", "nfev", "njev", "nit", "message", "success", "status"):
        va, vb = a[k], b[k]
        if isinstance(va, np.ndarray):
            if not np.array_equal(va, vb):
                return k
        elif va != vb:
            return k
    if not (np.array_equal(a.hess_inv.sk, b.hess_inv.sk) and np.array_equal(a.hess_inv.yk, b.hess_inv.yk)):
        return "hess_inv"
    return None


def main():
    prog = Program(REPO)
    it = Interp(prog, dom=None, native=True)
    fn = it.lookup("main.minimize_lbfgsb")
    cases = []
    lb, ub = np.array([-2.0, -2.0, 0.5]), np.array([2.0, 0.8, 2.0])
    cb_states = []
    cases.append(dict(x0=np.array([-1.2, 0.6, 0.7]), fun=rosenbrock, jac=rosenbrock_grad, bounds=np.array([lb, ub]).T,
                      maxcor=3, maxiter=25))
    cases.append(dict(x0=np.array([-1.2, 1.0]), fun=rosenbrock, jac="2-point", maxiter=8, maxls=3))
    cases.append(dict(x0=np.array([3.0, 0.5]), fun=beale, jac=beale_grad, bounds=np.array([[-4.5, 4.5]] * 2),
                      ftarget=lambda: 1e-3, gtol=lambda: 1e-7, callback=lambda x, s: s.nit >= 6,
                      gradient_scaler=lambda x, g, lb_, ub_: 0.5))
    cases.append(dict(x0=np.array([0.3, 0.3]), fun=lambda x: float(np.sum(np.sin(5 * x) + 0.1 * x * x)),
                      jac=lambda x: 5 * np.cos(5 * x) + 0.2 * x, maxls=1, maxiter=6,
                      update_fun_def=lambda x, f0, f0_old, g, X, G: (f0, f0_old, g, G)))
    out = {"cases": 0, "disagreements": [], "errors": []}
    for kw in cases:
        try:
            ref = lbfgsb.minimize_lbfgsb(**{k: (v.copy() if isinstance(v, np.ndarray) else v) for k, v in kw.items()})
            got = it.call(fn, [], {k: (v.copy() if isinstance(v, np.ndarray) else v) for k, v in kw.items()})
            out["cases"] += 1
            k = same(ref, got)
            if k:
                out["disagreements"].append({"case": out["cases"], "field": k})
        except Exception as e:      # noqa: BLE001
            import traceback
            out["errors"].append(f"{type(e).__name__}: {e} " + traceback.format_exc()[-600:])
    # restart through the interpreter
    try:
        a = lbfgsb.minimize_lbfgsb(x0=np.array([-1.2, 1.0]), fun=rosenbrock, jac=rosenbrock_grad, maxiter=4)
        ref = lbfgsb.minimize_lbfgsb(x0=a.x.copy(), fun=rosenbrock, jac=rosenbrock_grad, maxiter=9, checkpoint=a)
        got = it.call(fn, [], dict(x0=a.x.copy(), fun=rosenbrock, jac=rosenbrock_grad, maxiter=9, checkpoint=a))
        out["cases"] += 1
        k = same(ref, got)
        if k:
            out["disagreements"].append({"case": "restart", "field": k})
    except Exception as e:      # noqa: BLE001
        out["errors"].append(f"restart: {type(e).__name__}: {e}")
    # exception propagation through interpreted frames
    try:
        class Boom(Exception):
            pass

        def bad(x):
            raise Boom("boom")
        try:
            it.call(fn, [], dict(x0=np.array([1.0]), fun=bad, jac=lambda x: x))
            out["disagreements"].append({"case": "exception", "field": "not raised"})
        except Boom:
            out["cases"] += 1
    except Exception as e:      # noqa: BLE001
        out["errors"].append(f"exception case: {type(e).__name__}: {e}")
    print(json.dumps(out))


if __name__ == "__main__":
    main()
