"""Conformance tests of the library models (the trusted base of the proofs) against the REAL numpy / scipy installed for
the package (run under /venv/bin/python).  Each entry of pyvc/lib.py that carries an axiom or an assumed contract is
exercised on generated arguments.  A failure means a model is wrong: checker error (exit 3), never a verdict."""
import json
import sys

import numpy as np
import scipy as sp
from scipy.optimize import LbfgsInvHessProduct
from scipy.optimize._numdiff import approx_derivative

rng = np.random.default_rng(int(sys.argv[1]) if len(sys.argv) > 1 else 0)
fails = []
n_tests = 0


def check(name, ok):
    global n_tests
    n_tests += 1
    if not ok:
        fails.append(name)


for _ in range(200):
    n = int(rng.integers(1, 6))
    lb = rng.normal(size=n)
    ub = lb + np.abs(rng.normal(size=n)) * rng.choice([0.0, 1.0], size=n)
    lb[rng.random(n) < 0.2] = -np.inf
    ub[rng.random(n) < 0.2] = np.inf
    v = rng.normal(size=n) * 3
    c = np.clip(v, lb, ub)
    check("clip: result inside the box", bool(np.all(c >= lb) and np.all(c <= ub)))
    inside = (v >= lb) & (v <= ub)
    check("clip: identity inside", bool(np.array_equal(c[inside], v[inside])))
    check("clip: returns one of its arguments component-wise", bool(np.all((c == v) | (c == lb) | (c == ub))))
    check("clip: fresh result", c is not v and not np.shares_memory(c, v))
    a = rng.normal(size=n)
    check("atleast_1d returns its ndarray argument", np.atleast_1d(a) is a)
    check("asarray returns its ndarray argument", np.asarray(a) is a)
    b = a.astype(float)
    check("astype(float) copies", b is not a and not np.shares_memory(a, b) and np.array_equal(a, b))
    check("astype(float, copy=False) on float64 returns the same object", a.astype(float, copy=False) is a)
    check("np.copy is fresh and equal", np.copy(a) is not a and np.array_equal(np.copy(a), a))
    check("array * scalar is fresh", not np.shares_memory(a * 1.0, a) and np.array_equal(a * 1.0, a))
    check("x * 1.0 == x and x / 1.0 == x bitwise", np.array_equal(a * 1.0, a) and np.array_equal(a / 1.0, a))
    b2 = rng.normal(size=n)
    check("a*b == b*a, a+b == b+a, dot commutes (bitwise)", np.array_equal(a * b2, b2 * a) and np.array_equal(a + b2, b2 + a)
          and a.dot(b2) == b2.dot(a))
    s1, y1 = rng.normal(size=n), rng.normal(size=n)
    check("dot(a-b, c-d) == dot(b-a, d-c)", (a - b2).dot(s1 - y1) == (b2 - a).dot(y1 - s1))
    check("x + 0*d == x", np.array_equal(a + 0.0 * b2, a))
    check("dot(v,v) >= 0", a.dot(a) >= 0)
    check("array_equal is value equality", np.array_equal(a, a.copy()) and not np.array_equal(a, a + 1))
    check("transpose of 1-D is itself", a.T.shape == a.shape and np.shares_memory(a.T, a))
    t = rng.normal(size=n)
    t[rng.random(n) < 0.3] = t[0]
    o = np.argsort(t)
    check("argsort: permutation with non-decreasing keys", sorted(o.tolist()) == list(range(n)) and bool(np.all(np.diff(t[o]) >= 0)))
    check("argsort deterministic", np.array_equal(o, np.argsort(t.copy())))

# scipy linear algebra
for _ in range(60):
    k = int(rng.integers(1, 6))
    T = rng.normal(size=(k, k)) + np.eye(k) * 3
    v = rng.normal(size=k)
    w = sp.linalg.solve_triangular(T, v, lower=True)
    check("solve_triangular(lower) reads the lower triangle only", np.allclose(np.tril(T) @ w, v))
    w = sp.linalg.solve_triangular(T, v, lower=False)
    check("solve_triangular(upper) reads the upper triangle only", np.allclose(np.triu(T) @ w, v))
    A = T @ T.T
    J = sp.linalg.cholesky(A, lower=True)
    check("cholesky: lower, positive diagonal, J J^T = A", np.allclose(J @ J.T, A) and np.allclose(J, np.tril(J)) and bool(np.all(np.diag(J) > 0)))
    check("linalg.solve", np.allclose(A @ np.linalg.solve(A, v), v))
try:
    sp.linalg.cholesky(np.array([[1.0, 2.0], [2.0, 1.0]]), lower=True)
    check("cholesky raises LinAlgError on a non-SPD matrix", False)
except np.linalg.LinAlgError:
    check("cholesky raises LinAlgError on a non-SPD matrix", True)

# LbfgsInvHessProduct stores its arguments
sk, yk = rng.normal(size=(3, 4)), rng.normal(size=(3, 4))
H = LbfgsInvHessProduct(sk, yk)
check("LbfgsInvHessProduct stores sk, yk", np.array_equal(H.sk, sk) and np.array_equal(H.yk, yk))
check("matvec is todense() @ v", np.allclose(H.matvec(np.ones(4)), H.todense() @ np.ones(4)))

# approx_derivative: assumed contract
for method in ("2-point", "3-point", "cs"):
    for _ in range(40):
        n = int(rng.integers(1, 5))
        lb = rng.normal(size=n)
        ub = lb + np.abs(rng.normal(size=n)) + 1e-3
        x = np.clip(lb + rng.uniform(0, 1, n) * (ub - lb), lb, ub)
        if rng.random() < 0.4:
            i = int(rng.integers(0, n))
            x[i] = lb[i] if rng.random() < 0.5 else ub[i]
        pts = []

        def f(z):
            pts.append(np.array(z, copy=True))
            return np.sum(z * z)
        f0 = f(x)
        pts.clear()
        kw = dict(method=method, bounds=(lb, ub), f0=f0)
        if rng.random() < 0.5:
            kw["abs_step"] = 1e-8 if method != "3-point" else 1e-6
        g = approx_derivative(f, x.copy(), **kw)
        check(f"approx_derivative[{method}]: stencil inside the box",
              all(bool(np.all(np.real(p) >= lb) and np.all(np.real(p) <= ub)) for p in pts))
        check(f"approx_derivative[{method}]: fresh result", isinstance(g, np.ndarray) and g.shape == x.shape)
        g2 = approx_derivative(lambda z: np.sum(z * z), x.copy(), **kw)
        check(f"approx_derivative[{method}]: deterministic", np.array_equal(g, g2))
        xo = x.copy()
        xo[0] = ub[0] + 1e-9 * max(1.0, abs(ub[0]))
        try:
            approx_derivative(f, xo, **kw)
            check(f"approx_derivative[{method}]: raises ValueError outside the bounds", False)
        except ValueError:
            check(f"approx_derivative[{method}]: raises ValueError outside the bounds", True)

        class Boom(Exception):
            pass

        def bad(z):
            raise Boom()
        try:
            approx_derivative(bad, x.copy(), **kw)
            check(f"approx_derivative[{method}]: transparent to exceptions", False)
        except Boom:
            check(f"approx_derivative[{method}]: transparent to exceptions", True)

# DCSRCH._iterate: assumed contract
from scipy.optimize._dcsrch import DCSRCH   # noqa: E402
for _ in range(200):
    calls = [0]

    def phi(a):
        calls[0] += 1
        return 0.0

    def dphi(a):
        calls[0] += 1
        return 0.0
    stpmax = float(10 ** rng.uniform(-2, 2))
    d = DCSRCH(phi, dphi, 1e-3, 0.9, 0.1, 0.0, stpmax)
    stp = float(10 ** rng.uniform(-3, 2.5))
    f0, g0 = float(rng.normal()), -abs(float(rng.normal())) - 1e-3
    r = d._iterate(stp, f0, g0, b"START")
    ok = (r[3][:2] == b"FG" and r[0] == stp and 0.0 <= stp <= stpmax) or (r[3][:5] == b"ERROR" and (stp > stpmax or stp < 0))
    check("DCSRCH START: FG with the step unchanged inside [stpmin, stpmax], else ERROR", ok)
    check("DCSRCH START passes f, g through", r[1] == f0 and r[2] == g0)
    task = r[3]
    for it in range(6):
        if task[:2] != b"FG":
            break
        s_ = r[0]
        fv = f0 + g0 * s_ + float(rng.uniform(0, 3)) * s_ * s_
        gv = g0 + 2 * float(rng.uniform(0, 3)) * s_
        r = d._iterate(s_, fv, gv, task)
        task = r[3]
        check("DCSRCH: task in FG|CONV|WARN|ERROR", task[:2] == b"FG" or task[:4] in (b"CONV", b"WARN") or task[:5] == b"ERROR")
        if task[:5] != b"ERROR":
            check("DCSRCH: step inside [stpmin, stpmax]", 0.0 <= r[0] <= stpmax)
    check("DCSRCH._iterate never calls phi/derphi", calls[0] == 0)

# deque semantics used by the model
from collections import deque   # noqa: E402
from typing import Deque        # noqa: E402
dq = deque([1, 2, 3])
dq.append(4)
dq.popleft()
dq.appendleft(0)
check("deque append/popleft/appendleft/index", list(dq) == [0, 2, 3, 4] and dq[-1] == 4 and dq[0] == 0)
check("typing.Deque([...]) builds a deque", list(Deque([5])) == [5])

# models added with the later seeded rounds: rows of a[k:], a.flat[...] reads, OptimizeResult as a dict, the class
# invariant of LbfgsInvHessProduct, shallow copy of a result, generator expressions and StopIteration (PEP 479)
import copy as _copy            # noqa: E402
from scipy.optimize import OptimizeResult   # noqa: E402
for _ in range(50):
    r_, c_ = int(rng.integers(1, 7)), int(rng.integers(1, 4))
    A = rng.normal(size=(r_, c_))
    k = int(rng.integers(0, r_ + 1))
    check("rows of a[k:] == rows(a) - k for 0 <= k <= rows(a)", A[k:].shape[0] == r_ - k and len(A[k:]) == r_ - k)
    if k >= 1:
        check("rows of a[-k:] == k for 1 <= k <= rows(a)", A[-k:].shape[0] == k and np.array_equal(A[-k:], A[r_ - k:]))
    check("len(a) == a.shape[0]", len(A) == A.shape[0])
    st = int(rng.integers(1, 4))
    check("a.flat[::st] reads the row-major entries", np.array_equal(A.flat[::st], A.ravel()[::st]))
    i = int(rng.integers(0, A.size))
    check("a.flat[i] reads the row-major entry", A.flat[i] == A.ravel()[i])
res_ = OptimizeResult(x=np.zeros(2), status=2, message="m")
check("OptimizeResult: keys are attributes, get / [] / update / in", res_.get("status", 0) == 2 and res_.get("nope", 7) == 7
      and res_["message"] == "m" and res_.status == 2)
res_.update(status=0)
check("OptimizeResult.update rewrites the attribute", res_.status == 0 and res_["status"] == 0)
res_["extra"] = 1
check("OptimizeResult item store creates the attribute", res_.extra == 1)
cp_ = _copy.copy(res_)
check("copy.copy(OptimizeResult): new object, same fields", cp_ is not res_ and cp_.x is res_.x and cp_.status == res_.status)
try:
    res_["absent"]
    check("OptimizeResult[...] of a missing key raises KeyError", False)
except KeyError:
    check("OptimizeResult[...] of a missing key raises KeyError", True)
try:
    LbfgsInvHessProduct(np.zeros((2, 3)), np.zeros((1, 3)))
    check("LbfgsInvHessProduct rejects sk, yk of different shapes", False)
except ValueError:
    check("LbfgsInvHessProduct rejects sk, yk of different shapes", True)


def _raises_stop():
    raise StopIteration


try:
    a_, b_ = (f() if callable(f) else f for f in (_raises_stop, 1.0))
    check("PEP 479: StopIteration inside a generator expression becomes RuntimeError", False)
except RuntimeError:
    check("PEP 479: StopIteration inside a generator expression becomes RuntimeError", True)
except StopIteration:
    check("PEP 479: StopIteration inside a generator expression becomes RuntimeError", False)

print(json.dumps({"tests": n_tests, "failures": sorted(set(fails))}))
