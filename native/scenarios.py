"""Native run-time interpretation of the property clauses on the REAL code (run under /venv/bin/python with
PYTHONPATH=<tree>): seeded families of minimize_lbfgsb runs, monitored from outside (no hook in the package).

Two uses: (1) replay oracle - when the verifier refutes an obligation, the matching clause is searched for a failing
native input; (2) bounded stand-in - labelled `bounded`, never counted as proved.

usage: scenarios.py --props C04,C05 --runs N --seed S      -> one JSON document on stdout
"""
import argparse
import copy
import json
import math
import sys
import traceback

import numpy as np

from lbfgsb import minimize_lbfgsb
from lbfgsb.benchmarks import rosenbrock, rosenbrock_grad

DOCUMENTED = {
    "CONVERGENCE: NORM_OF_PROJECTED_GRADIENT_<=_PGTOL", "CONVERGENCE: F_<=_TARGET",
    "CONVERGENCE: REL_REDUCTION_OF_F_<=_FTOL", "STOP: TOTAL NO. of ITERATIONS REACHED LIMIT",
    "STOP: TOTAL NO. of f AND g EVALUATIONS EXCEEDS LIMIT", "STOP: USER CALLBACK", "ABNORMAL_TERMINATION_IN_LNSRCH"}


# ------------------------------------------------------------------------------------------------ problems
class Problem:
    def __init__(self, name, n, f, g, lb, ub, x0, convex=False):
        self.name, self.n, self.f, self.g, self.lb, self.ub, self.x0, self.convex = name, n, f, g, lb, ub, x0, convex

    def bounds(self):
        return np.array([self.lb, self.ub]).T


def make_box(rng, n, center=None, kind=None):
    kind = kind or rng.choice(["finite", "mixed", "inf", "degenerate", "tight"])
    c = np.zeros(n) if center is None else center
    lb = c - rng.uniform(0.2, 3.0, n)
    ub = c + rng.uniform(0.2, 3.0, n)
    if kind == "inf":
        lb[:] = -np.inf
        ub[:] = np.inf
    elif kind == "mixed":
        for i in range(n):
            r = rng.integers(0, 4)
            if r == 0:
                lb[i] = -np.inf
            elif r == 1:
                ub[i] = np.inf
            elif r == 2:
                lb[i], ub[i] = -np.inf, np.inf
    elif kind == "degenerate":
        i = rng.integers(0, n)
        ub[i] = lb[i]
    elif kind == "tight":
        ub = lb + rng.uniform(1e-3, 0.3, n)
    return lb, ub


def start_in(rng, lb, ub):
    n = lb.size
    x = np.empty(n)
    for i in range(n):
        lo = lb[i] if np.isfinite(lb[i]) else -2.0
        hi = ub[i] if np.isfinite(ub[i]) else 2.0
        if hi < lo:
            lo, hi = hi - 1.0, hi
        r = rng.integers(0, 4)
        x[i] = lo if r == 0 else hi if r == 1 else rng.uniform(lo, hi)
    return np.clip(x, lb, ub)


def problem(rng, kind=None, n=None):
    kind = kind or rng.choice(["qp", "qp4", "softplus", "rosen", "osc", "badscale"])
    n = n or int(rng.integers(1, 6))
    if kind == "rosen":
        n = max(n, 2)
        f, g = rosenbrock, rosenbrock_grad
        lb, ub = make_box(rng, n, np.ones(n) * 0.5)
        return Problem("rosen", n, f, g, lb, ub, start_in(rng, lb, ub))
    if kind == "osc":
        w = rng.uniform(2.0, 7.0, n)

        def f(x):
            return float(np.sum(np.sin(w * x) + 0.1 * x * x))

        def g(x):
            return w * np.cos(w * x) + 0.2 * x
        lb, ub = make_box(rng, n)
        return Problem("osc", n, f, g, lb, ub, start_in(rng, lb, ub))
    A = rng.normal(size=(n, n))
    cond = 10 ** rng.uniform(0, 4 if kind != "badscale" else 7)
    U, _ = np.linalg.qr(A)
    ev = np.geomspace(1.0, cond, n)
    Q = (U * ev) @ U.T
    Q = 0.5 * (Q + Q.T)
    b = rng.normal(size=n) * 3
    if kind in ("qp", "badscale"):
        def f(x):
            return float(0.5 * x @ Q @ x - b @ x)

        def g(x):
            return Q @ x - b
    elif kind == "qp4":
        def f(x):
            return float(0.5 * x @ Q @ x - b @ x + 0.25 * np.sum(x ** 4))

        def g(x):
            return Q @ x - b + x ** 3
    else:
        def f(x):
            return float(0.5 * x @ Q @ x - b @ x + np.sum(np.logaddexp(0.0, x)))

        def g(x):
            return Q @ x - b + 1.0 / (1.0 + np.exp(-x))
    xs = np.linalg.solve(Q, b)
    lb, ub = make_box(rng, n, xs * rng.choice([0.0, 1.0]))
    return Problem(kind, n, f, g, lb, ub, start_in(rng, lb, ub), convex=True)


# ------------------------------------------------------------------------------------------------ monitored run
class Rec:
    """Objective/gradient/callback wrappers recording every call (values are copies)."""

    def __init__(self, p, fail_at=None, scale=1.0):
        self.p, self.fail_at, self.scale = p, fail_at, scale
        self.fpts, self.gpts, self.fvals, self.gvals = [], [], [], []
        self.states, self.cbx = [], []
        self.events = []

    def _maybe_fail(self, kind):
        n = sum(1 for e in self.events if e == kind)
        if self.fail_at is not None and self.fail_at[0] == kind and self.fail_at[1] == n:
            self.exc = self.fail_at[2]("boom in %s #%d" % (kind, n))
            raise self.exc

    def fun(self, x):
        self.events.append("fun")
        self._maybe_fail("fun")
        self.fpts.append(np.array(x, copy=True))
        v = self.p.f(np.array(x, copy=True)) * self.scale
        self.fvals.append(v)
        return v

    def jac(self, x):
        self.events.append("jac")
        self._maybe_fail("jac")
        self.gpts.append(np.array(x, copy=True))
        v = self.p.g(np.array(x, copy=True)) * self.scale
        self.gvals.append(np.array(v, copy=True))
        return v

    def callback(self, xk, state):
        self.events.append("callback")
        self._maybe_fail("callback")
        self.cbx.append(np.array(xk, copy=True))
        self.states.append((state, copy.deepcopy(state)))
        return False


def snap(res):
    return dict(x=np.array(res.x, copy=True), fun=float(res.fun), jac=np.array(res.jac, copy=True), nfev=int(res.nfev),
                njev=int(res.njev), nit=int(res.nit), message=str(res.message), success=bool(res.success),
                status=int(res.status), sk=np.array(res.hess_inv.sk, copy=True), yk=np.array(res.hess_inv.yk, copy=True))


def same_state(a, b, keys=("x", "fun", "jac", "nfev", "njev", "nit", "sk", "yk")):
    for k in keys:
        va, vb = a[k], b[k]
        if isinstance(va, np.ndarray):
            if va.shape != vb.shape or not np.array_equal(va, vb):
                return k
        elif va != vb:
            return k
    return None


def base_kwargs(rng, p, rec, jacmode="callable"):
    kw = dict(x0=p.x0.copy(), fun=rec.fun, bounds=p.bounds(), maxcor=int(rng.integers(1, 8)),
              maxiter=int(rng.integers(0, 25)), maxfun=int(rng.integers(1, 120)), maxls=int(rng.integers(1, 21)),
              ftol=float(rng.choice([0.0, 1e-12, 1e-8, 1e-3])), gtol=float(rng.choice([1e-10, 1e-6, 1e-3])))
    if jacmode == "callable":
        kw["jac"] = rec.jac
    else:
        kw["jac"] = jacmode
    return kw


# ------------------------------------------------------------------------------------------------ clauses
def pg_norm(x, g, lb, ub):
    return float(np.max(np.abs(np.clip(x - g, lb, ub) - x)))


def clause_C02(p, rec, res, kw, fails):
    for kind, pts in (("fun", rec.fpts), ("jac", rec.gpts), ("callback", rec.cbx)):
        for i, x in enumerate(pts):
            x = np.real(x)              # complex-step stencil points: the real part is the point
            if not (np.all(x >= p.lb) and np.all(x <= p.ub)):
                fails.append(("C02", f"{kind} call #{i} outside the box by {np.max(np.maximum(p.lb - x, x - p.ub)):.3e}"))
                return
    if res is not None:
        if not (np.all(res.x >= p.lb) and np.all(res.x <= p.ub)):
            fails.append(("C02", "returned x outside the box"))
        deg = p.lb == p.ub
        if np.any(deg) and not np.array_equal(res.x[deg], p.lb[deg]):
            fails.append(("C02", "component with lb == ub moved"))


def clause_C03(p, rec, res, kw, fails):
    if res is None or kw.get("update_fun_def") is not None or not rec.fvals:
        return
    seq = [rec.fvals[0]] + [float(s[1].fun) for s in rec.states] + [float(res.fun)]
    for a, b in zip(seq, seq[1:]):
        if b > a:
            fails.append(("C03", f"objective increased between accepted iterates: {a!r} -> {b!r} ({res.message})"))
            return


def clause_C04(p, rec, res, kw, fails, n0=1, nit0=0, ft_calls=None):
    if res is None:
        return
    m = res.message
    if m not in DOCUMENTED:
        sig = ""
        if not callable(kw.get("jac")) and np.any(p.lb == p.ub) and np.any(np.isnan(res.jac)):
            sig = " [sig:fd-mode+degenerate-bound->nan-gradient]"
        fails.append(("C04", f"undocumented termination message {m!r}{sig}"))
        return
    gt = kw["gtol"] if not callable(kw["gtol"]) else kw["_gtol_val"]
    ft = kw.get("ftarget")
    ft = kw.get("_ftarget_val") if callable(ft) else ft
    if m.startswith("CONVERGENCE: NORM") and not pg_norm(res.x, res.jac, p.lb, p.ub) <= gt:
        fails.append(("C04", "projected-gradient message but projected gradient > gtol"))
    if m == "CONVERGENCE: F_<=_TARGET" and not (ft is not None and res.fun / kw.get("_scale", 1.0) <= ft):
        fails.append(("C04", "target message but fun > ftarget"))
    if m.startswith("STOP: TOTAL NO. of ITER") and not res.nit >= kw["maxiter"]:
        fails.append(("C04", f"iteration-limit message with nit={res.nit} < maxiter={kw['maxiter']}"))
    if m.startswith("STOP: TOTAL NO. of f") and not res.nfev >= kw["maxfun"]:
        fails.append(("C04", f"evaluation-limit message with nfev={res.nfev} < maxfun={kw['maxfun']}"))
    if (res.success is False) != (m == "ABNORMAL_TERMINATION_IN_LNSRCH"):
        fails.append(("C04", f"success={res.success} with message {m!r}"))
    if res.nit > max(kw["maxiter"], nit0):
        fails.append(("C04", f"nit={res.nit} > max(maxiter={kw['maxiter']}, nit0={nit0})"))
    if callable(kw.get("jac")) and res.nfev > max(kw["maxfun"], n0) + 1:
        fails.append(("C04", f"nfev={res.nfev} > max(maxfun={kw['maxfun']}, n0={n0}) + 1"))


def clause_C05(p, rec, res, kw, fails, base=(0, 0)):
    if res is None:
        return
    s = kw.get("_scale", 1.0)
    if res.nfev != base[0] + len(rec.fpts):
        fails.append(("C05", f"nfev={res.nfev} but {base[0]}+{len(rec.fpts)} objective calls were made"))
    if callable(kw.get("jac")) and res.njev != base[1] + len(rec.gpts):
        fails.append(("C05", f"njev={res.njev} but {base[1]}+{len(rec.gpts)} gradient calls were made"))
    if kw.get("update_fun_def") is not None:
        return
    items = [(res.x, res.fun, res.jac, "result")] + [(st[1].x, st[1].fun, st[1].jac, f"callback state {i}")
                                                       for i, st in enumerate(rec.states)]
    for x, fv, jv, what in items:
        if (len(rec.gpts) + base[1]) == 0:
            continue
        if fv != p.f(np.array(x, copy=True)) * rec.scale * s:
            fails.append(("C05", f"{what}: fun is not the objective value at x"))
            return
        if callable(kw.get("jac")) and not np.array_equal(jv, p.g(np.array(x, copy=True)) * rec.scale * s):
            fails.append(("C05", f"{what}: jac is not the gradient at x"))
            return


def clause_C18(p, rec, res, kw, fails):
    if res is None or kw.get("update_fun_def") is not None or kw.get("checkpoint") is not None:
        return
    for what, st in [("result", res)] + [(f"callback state {i}", s[1]) for i, s in enumerate(rec.states)]:
        sk, yk = np.atleast_2d(st.hess_inv.sk), np.atleast_2d(st.hess_inv.yk)
        if sk.size == 0:
            continue
        if sk.shape[0] > kw["maxcor"]:
            fails.append(("C18", f"{what}: {sk.shape[0]} pairs > maxcor={kw['maxcor']}"))
            return
        if callable(kw.get("jac")):
            pts = rec.gpts
            vals = rec.gvals
            s = kw.get("_scale", 1.0)
            for k in range(sk.shape[0]):
                ok = False
                for i in range(len(pts)):
                    for j in range(i + 1, len(pts)):
                        if np.array_equal(pts[j] - pts[i], sk[k]) and np.array_equal(vals[j] * s - vals[i] * s, yk[k]):
                            ok = True
                            break
                    if ok:
                        break
                if not ok:
                    fails.append(("C18", f"{what}: pair {k} is not a difference of visited iterates / their gradients"))
                    return
        sy = np.einsum("ij,ij->i", sk, yk)
        if np.any(sy <= 0):
            fails.append(("C18", f"{what}: pair with s.y <= 0"))
            return


def clause_C14_inputs(p, kw_before, kw, fails):
    if not np.array_equal(kw_before["x0"], kw["x0"]):
        fails.append(("C14", "x0 modified"))
    if not np.array_equal(kw_before["bounds"], kw["bounds"], equal_nan=True):
        fails.append(("C14", "bounds modified"))
    ck0, ck1 = kw_before.get("checkpoint"), kw.get("checkpoint")
    if ck0 is not None:
        a, b = snap(ck0), snap(ck1)
        k = same_state(a, b, ("x", "fun", "jac", "nfev", "njev", "nit", "sk", "yk"))
        if k or a["message"] != b["message"]:
            fails.append(("C14", f"checkpoint field {k or 'message'} modified by the call"))


# ------------------------------------------------------------------------------------------------ scenarios
def run_once(p, kw, rec):
    try:
        return minimize_lbfgsb(**{k: v for k, v in kw.items() if not k.startswith("_")}), None
    except Exception as e:      # noqa: BLE001
        return None, e


def scenario_basic(rng, props, fails, stats):
    """One monitored run, with options; clauses C02 C03 C04 C05 C18 C14(inputs)."""
    p = problem(rng)
    jacmode = "callable" if rng.random() < 0.7 else rng.choice([None, "2-point", "3-point", "cs"])
    if jacmode in ("cs",) and p.name in ("softplus",):
        jacmode = "2-point"
    rec = Rec(p)
    kw = base_kwargs(rng, p, rec, jacmode)
    r = rng.random()
    if r < 0.25:
        kw["ftarget"] = float(p.f(p.x0) - abs(rng.normal()) * 2)
    elif r < 0.4:
        v = float(p.f(p.x0) - abs(rng.normal()))
        calls = []

        def ft():
            calls.append(1)
            return v
        kw["ftarget"], kw["_ftarget_val"], kw["_ft_calls"] = ft, v, calls
    if rng.random() < 0.2:
        gv = float(kw["gtol"])
        gcalls = []

        def gt():
            gcalls.append(1)
            return gv
        kw["gtol"], kw["_gtol_val"], kw["_gt_calls"] = gt, gv, gcalls
    if rng.random() < 0.5:
        kw["callback"] = rec.callback
    before = copy.deepcopy({k: kw[k] for k in ("x0", "bounds")})
    res, exc = run_once(p, kw, rec)
    stats["runs"] += 1
    if exc is not None:
        if jacmode != "callable" and "C16" in props:
            fails.append(("C16", f"finite-difference run raised {type(exc).__name__}: {exc}"))
        elif jacmode == "callable":
            fails.append(("C20", f"fault-free run raised {type(exc).__name__}: {exc}"))
        return describe(p, kw)
    stats["nontrivial"] += int(res.nit > 0)
    clause_C02(p, rec, res, kw, fails)
    clause_C03(p, rec, res, kw, fails)
    clause_C04(p, rec, res, kw, fails)
    for nm in ("_ft_calls", "_gt_calls"):
        if nm in kw and len(kw[nm]) != 1:
            fails.append(("C04", f"stop-criterion callable invoked {len(kw[nm])} times"))
    clause_C05(p, rec, res, kw, fails)
    clause_C18(p, rec, res, kw, fails)
    clause_C14_inputs(p, before, kw, fails)
    # the callback states must not have changed after the callback returned (C07)
    for i, (live, frozen) in enumerate(rec.states):
        k = same_state(snap(live), snap(frozen))
        if k:
            fails.append(("C07", f"callback state {i}: field {k} changed after the callback returned"))
            break
    return describe(p, kw)


def scenario_restart(rng, props, fails, stats):
    """Run stopped by maxiter=k then restarted: C04 C05 C14 on the restart, counters add up."""
    p = problem(rng)
    rec1 = Rec(p)
    kw = base_kwargs(rng, p, rec1)
    kw["maxiter"] = int(rng.integers(0, 6))
    kw["maxfun"] = 500
    res1, exc = run_once(p, kw, rec1)
    stats["runs"] += 1
    if exc is not None:
        fails.append(("C20", f"fault-free run raised {type(exc).__name__}: {exc}"))
        return describe(p, kw)
    rec2 = Rec(p)
    kw2 = dict(kw)
    kw2.update(fun=rec2.fun, jac=rec2.jac, x0=res1.x.copy(), checkpoint=res1,
               maxiter=int(rng.integers(0, 12)), maxcor=int(rng.choice([kw["maxcor"], max(1, kw["maxcor"] - 1)])))
    if rng.random() < 0.3:
        kw2["ftarget"] = float(res1.fun + 1.0)
    if rng.random() < 0.3:
        kw2["callback"] = rec2.callback
    ro = rng.random() < 0.3
    if ro:
        for a in (res1.x, res1.jac, res1.hess_inv.sk, res1.hess_inv.yk):
            a.setflags(write=False)
    before = dict(x0=kw2["x0"].copy(), bounds=kw2["bounds"].copy(), checkpoint=copy.deepcopy(res1))
    res2, exc = run_once(p, kw2, rec2)
    stats["runs"] += 1
    if exc is not None:
        fails.append(("C14" if ro else "C20", f"restart raised {type(exc).__name__}: {exc} (read-only checkpoint={ro})"))
        return describe(p, kw2)
    stats["nontrivial"] += int(res2.nit > res1.nit)
    clause_C04(p, rec2, res2, kw2, fails, n0=res1.nfev, nit0=res1.nit)
    clause_C05(p, rec2, res2, kw2, fails, base=(res1.nfev, res1.njev))
    clause_C02(p, rec2, res2, kw2, fails)
    clause_C14_inputs(p, before, kw2, fails)
    return describe(p, kw2)


def scenario_callback_checkpoint(rng, props, fails, stats):
    """C07: the state after iteration k equals the result of a run with maxiter=k; callback returning False is a no-op."""
    p = problem(rng)
    rec = Rec(p)
    kw = base_kwargs(rng, p, rec)
    kw["maxiter"] = int(rng.integers(1, 8))
    kw["maxfun"] = 400
    kw["callback"] = rec.callback
    res, exc = run_once(p, kw, rec)
    stats["runs"] += 1
    if exc is not None or not rec.states:
        return describe(p, kw)
    stats["nontrivial"] += 1
    rec0 = Rec(p)
    kw0 = dict(kw)
    kw0.update(fun=rec0.fun, jac=rec0.jac, callback=None)
    res0, _ = run_once(p, kw0, rec0)
    if res0 is not None:
        k = same_state(snap(res), snap(res0)) or (None if res.message == res0.message else "message")
        if k:
            fails.append(("C07", f"a callback returning False altered the run (field {k})"))
    i = int(rng.integers(0, len(rec.states)))
    st = rec.states[i][1]
    reck = Rec(p)
    kwk = dict(kw0)
    kwk.update(fun=reck.fun, jac=reck.jac, maxiter=i + 1)
    resk, _ = run_once(p, kwk, reck)
    if resk is not None and resk.nit == i + 1:
        k = same_state(snap(st), snap(resk))
        if k:
            fails.append(("C07", f"state after iteration {i + 1} differs from a run with maxiter={i + 1} in field {k} "
                                 f"({snap(st)[k]!r} vs {snap(resk)[k]!r})"))
    return describe(p, kw)


def scenario_determinism(rng, props, fails, stats):
    """C14: equal arguments -> bit-identical results; iprint/logger have no influence; nested call inside objective."""
    import logging
    p = problem(rng)
    outs = []
    lg = logging.getLogger("verif-silent")
    lg.addHandler(logging.NullHandler())
    lg.propagate = False
    lg.setLevel(logging.INFO)
    kw_seed = int(rng.integers(0, 2 ** 31))
    for variant in range(3):
        rec = Rec(p)
        kw = base_kwargs(np.random.default_rng(kw_seed), p, rec)
        if variant == 1:
            kw.update(iprint=int(rng.choice([0, 1, 99, 101])), logger=lg)
        if variant == 2:
            inner = problem(np.random.default_rng(kw_seed + 1))
            orig = rec.fun

            def nested(x, orig=orig, inner=inner):
                minimize_lbfgsb(x0=inner.x0.copy(), fun=inner.f, jac=inner.g, bounds=inner.bounds(), maxiter=3)
                return orig(x)
            kw["fun"] = nested
        res, exc = run_once(p, kw, rec)
        stats["runs"] += 1
        if exc is not None:
            fails.append(("C14", f"variant {variant} raised {type(exc).__name__}: {exc}"))
            return describe(p, kw)
        outs.append(snap(res))
    stats["nontrivial"] += int(outs[0]["nit"] > 0)
    for v in (1, 2):
        k = same_state(outs[0], outs[v]) or (None if outs[0]["message"] == outs[v]["message"] else "message")
        if k:
            fails.append(("C14", f"result field {k} differs between a plain run and "
                                 f"{'a logged run' if v == 1 else 'a run with a nested optimisation in the objective'}"))
    return describe(p, kw)


def scenario_scaler(rng, props, fails, stats):
    """C17: scaler returning s  ==  no scaler on (s*f, s*grad f)."""
    p = problem(rng)
    s = float(10 ** rng.uniform(-3, 3))
    sc_calls = []
    recA = Rec(p)
    kw = base_kwargs(rng, p, recA)

    def scaler(x, g, lb, ub):
        sc_calls.append((x.copy(), g.copy(), lb.copy(), ub.copy()))
        return s
    kwA = dict(kw, gradient_scaler=scaler)
    resA, excA = run_once(p, kwA, recA)
    recB = Rec(p, scale=s)
    kwB = dict(kw, fun=recB.fun, jac=recB.jac)
    resB, excB = run_once(p, kwB, recB)
    stats["runs"] += 2
    if excA is not None or excB is not None:
        if (excA is None) != (excB is None):
            fails.append(("C17", f"one of the two runs raised: {excA!r} / {excB!r}"))
        return describe(p, kw)
    stats["nontrivial"] += int(resA.nit > 0)
    if len(recA.gpts) > 0:
        if len(sc_calls) != 1:
            fails.append(("C17", f"scaler invoked {len(sc_calls)} times"))
        else:
            x, g, lb, ub = sc_calls[0]
            if not (np.array_equal(x, np.clip(p.x0, p.lb, p.ub)) and np.array_equal(g, p.g(x.copy()))
                    and np.array_equal(lb, p.lb) and np.array_equal(ub, p.ub)):
                fails.append(("C17", "scaler not called with (start point, unscaled gradient, bounds)"))
    if len(recA.fpts) != len(recB.fpts) or any(not np.array_equal(a, b) for a, b in zip(recA.fpts, recB.fpts)):
        fails.append(("C17", "the two runs evaluate the objective at different points"))
    k = same_state(snap(resA), snap(resB))
    if k:
        fails.append(("C17", f"result field {k} differs between scaler run and explicitly scaled objective"))
    return describe(p, kw)


def scenario_faults(rng, props, fails, stats):
    """C20: an exception raised by a user callable at call index i propagates unchanged; a later identical fault-free
    call returns what a fresh call returns."""
    p = problem(rng)
    rec0 = Rec(p)
    kw = base_kwargs(rng, p, rec0)
    kw["callback"] = rec0.callback
    res0, exc = run_once(p, kw, rec0)
    stats["runs"] += 1
    if exc is not None:
        return describe(p, kw)
    kind = rng.choice(["fun", "jac", "callback", "ftarget", "gtol", "scaler"])
    ecls = rng.choice([ValueError, TypeError, RuntimeError, KeyError, ZeroDivisionError, FloatingPointError])
    kw1 = dict(kw)
    marker = {}
    if kind in ("fun", "jac", "callback"):
        n = sum(1 for e in rec0.events if e == kind)
        if n == 0:
            return describe(p, kw)
        rec1 = Rec(p, fail_at=(kind, int(rng.integers(0, n)), ecls))
        kw1.update(fun=rec1.fun, jac=rec1.jac, callback=rec1.callback)
    else:
        rec1 = Rec(p)
        kw1.update(fun=rec1.fun, jac=rec1.jac, callback=rec1.callback)

        def bad(*a):
            marker["exc"] = ecls("boom in " + kind)
            raise marker["exc"]
        kw1[{"ftarget": "ftarget", "gtol": "gtol", "scaler": "gradient_scaler"}[kind]] = bad
    res1, exc1 = run_once(p, kw1, rec1)
    stats["runs"] += 1
    stats["nontrivial"] += 1
    expected = getattr(rec1, "exc", None) or marker.get("exc")
    if expected is not None:
        if exc1 is None:
            fails.append(("C20", f"{ecls.__name__} raised by {kind} was swallowed: run returned {res1.message!r}"))
        elif exc1 is not expected:
            fails.append(("C20", f"{ecls.__name__} raised by {kind} surfaced as {type(exc1).__name__}: {exc1}"))
    rec2 = Rec(p)
    kw2 = dict(kw, fun=rec2.fun, jac=rec2.jac, callback=rec2.callback)
    res2, exc2 = run_once(p, kw2, rec2)
    if exc2 is not None or same_state(snap(res0), snap(res2)):
        fails.append(("C20", "a fault-free call after the faulty one differs from the reference run"))
    return describe(p, kw)


def describe(p, kw):
    return {"problem": p.name, "n": p.n, "x0": [float(v) for v in p.x0], "lb": [float(v) for v in p.lb],
            "ub": [float(v) for v in p.ub],
            "options": {k: (v if isinstance(v, (int, float, str, type(None))) else type(v).__name__)
                        for k, v in kw.items() if k not in ("x0", "bounds", "fun") and not k.startswith("_")}}


SCENARIOS = {
    "basic": (scenario_basic, {"C02", "C03", "C04", "C05", "C18", "C14", "C07", "C16", "C20"}),
    "restart": (scenario_restart, {"C04", "C05", "C14", "C02"}),
    "cbstate": (scenario_callback_checkpoint, {"C07"}),
    "determinism": (scenario_determinism, {"C14"}),
    "scaler": (scenario_scaler, {"C17"}),
    "faults": (scenario_faults, {"C20"}),
}


def main():
    ap = argparse.ArgumentParser()
    ap.add_argument("--props", default="C04")
    ap.add_argument("--runs", type=int, default=100)
    ap.add_argument("--seed", type=int, default=0)
    a = ap.parse_args()
    props = set(a.props.split(","))
    names = [n for n, (_, ps) in SCENARIOS.items() if ps & props]
    out = {"props": sorted(props), "scenarios": names, "runs": 0, "nontrivial": 0, "failures": [], "samples": []}
    stats = {"runs": 0, "nontrivial": 0}
    np.seterr(all="ignore")
    import warnings
    warnings.simplefilter("ignore")
    for i in range(a.runs):
        name = names[i % len(names)]
        rng = np.random.default_rng([a.seed, i])
        fails = []
        try:
            desc = SCENARIOS[name][0](rng, props, fails, stats)
        except Exception as e:       # harness problems are reported, never counted as violations
            out.setdefault("harness_errors", []).append(f"{name}#{i}: {type(e).__name__}: {e} "
                                                        + traceback.format_exc()[-400:])
            continue
        if i < 3:
            out["samples"].append({"scenario": name, "case": desc})
        for pid, what in fails:
            if pid in props and len(out["failures"]) < 12:
                out["failures"].append({"property": pid, "scenario": name, "index": i, "seed": a.seed, "what": what,
                                        "case": desc})
    out.update(stats)
    print(json.dumps(out, default=str))


if __name__ == "__main__":
    main()
