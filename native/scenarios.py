"""Native run-time interpretation of the property clauses on the REAL code (run under /venv/bin/python with
PYTHONPATH=<tree>): seeded families of minimize_lbfgsb runs, monitored from outside (no hook in the package).

Two uses: (1) replay oracle - when the verifier refutes an obligation, the matching clause is searched for a failing
native input; (2) bounded stand-in - labelled `bounded`, never counted as proved.

usage: scenarios.py --props C04,C05 --runs N --seed S      -> one JSON document on stdout
"""
import argparse
import copy
import json
import math
import os
import sys
import traceback

import numpy as np

from lbfgsb import minimize_lbfgsb
from lbfgsb.benchmarks import rosenbrock, rosenbrock_grad

DOCUMENTED = {
    "CONVERGENCE: NORM_OF_PROJECTED_GRADIENT_<=_PGTOL", "CONVERGENCE: F_<=_TARGET",
    "CONVERGENCE: REL_REDUCTION_OF_F_<=_FTOL", "STOP: TOTAL NO. of ITERATIONS REACHED LIMIT",
    "STOP: TOTAL NO. of f AND g EVALUATIONS EXCEEDS LIMIT", "STOP: USER CALLBACK", "ABNORMAL_TERMINATION_IN_LNSRCH"}


# ------------------------------------------------------------------------------------------------ problems
class Problem:
    def __init__(self, name, n, f, g, lb, ub, x0, convex=False):
        self.name, self.n, self.f, self.g, self.lb, self.ub, self.x0, self.convex = name, n, f, g, lb, ub, x0, convex

    def bounds(self):
        return np.array([self.lb, self.ub]).T


def make_box(rng, n, center=None, kind=None):
    kind = kind or rng.choice(["finite", "mixed", "inf", "degenerate", "tight"])
    c = np.zeros(n) if center is None else center
    lb = c - rng.uniform(0.2, 3.0, n)
    ub = c + rng.uniform(0.2, 3.0, n)
    if kind == "inf":
        lb[:] = -np.inf
        ub[:] = np.inf
    elif kind == "mixed":
        for i in range(n):
            r = rng.integers(0, 4)
            if r == 0:
                lb[i] = -np.inf
            elif r == 1:
                ub[i] = np.inf
            elif r == 2:
                lb[i], ub[i] = -np.inf, np.inf
    elif kind == "degenerate":
        i = rng.integers(0, n)
        ub[i] = lb[i]
    elif kind == "tight":
        ub = lb + rng.uniform(1e-3, 0.3, n)
    return lb, ub


def start_in(rng, lb, ub):
    n = lb.size
    x = np.empty(n)
    for i in range(n):
        lo = lb[i] if np.isfinite(lb[i]) else -2.0
        hi = ub[i] if np.isfinite(ub[i]) else 2.0
        if hi < lo:
            lo, hi = hi - 1.0, hi
        r = rng.integers(0, 4)
        x[i] = lo if r == 0 else hi if r == 1 else rng.uniform(lo, hi)
    return np.clip(x, lb, ub)


def problem(rng, kind=None, n=None):
    kind = kind or rng.choice(["qp", "qp4", "softplus", "rosen", "osc", "badscale"])
    n = n or int(rng.integers(1, 6))
    if kind == "rosen":
        n = max(n, 2)
        f, g = rosenbrock, rosenbrock_grad
        lb, ub = make_box(rng, n, np.ones(n) * 0.5)
        return Problem("rosen", n, f, g, lb, ub, start_in(rng, lb, ub))
    if kind == "osc":
        w = rng.uniform(2.0, 7.0, n)

        def f(x):
            return np.sum(np.sin(w * x) + 0.1 * x * x)

        def g(x):
            return w * np.cos(w * x) + 0.2 * x
        lb, ub = make_box(rng, n)
        return Problem("osc", n, f, g, lb, ub, start_in(rng, lb, ub))
    A = rng.normal(size=(n, n))
    cond = 10 ** rng.uniform(0, 4 if kind != "badscale" else 7)
    U, _ = np.linalg.qr(A)
    ev = np.geomspace(1.0, cond, n)
    Q = (U * ev) @ U.T
    Q = 0.5 * (Q + Q.T)
    b = rng.normal(size=n) * 3
    if kind in ("qp", "badscale"):
        def f(x):
            return 0.5 * x @ Q @ x - b @ x

        def g(x):
            return Q @ x - b
    elif kind == "qp4":
        def f(x):
            return 0.5 * x @ Q @ x - b @ x + 0.25 * np.sum(x ** 4)

        def g(x):
            return Q @ x - b + x ** 3
    else:
        def f(x):
            return 0.5 * x @ Q @ x - b @ x + np.sum(np.logaddexp(0.0, x))

        def g(x):
            return Q @ x - b + 1.0 / (1.0 + np.exp(-x))
    xs = np.linalg.solve(Q, b)
    lb, ub = make_box(rng, n, xs * rng.choice([0.0, 1.0]))
    pr = Problem(kind, n, f, g, lb, ub, start_in(rng, lb, ub), convex=True)
    pr.L = float(cond)
    return pr


# ------------------------------------------------------------------------------------------------ monitored run
class Rec:
    """Objective/gradient/callback wrappers recording every call (values are copies)."""

    def __init__(self, p, fail_at=None, scale=1.0):
        self.p, self.fail_at, self.scale = p, fail_at, scale
        self.fpts, self.gpts, self.fvals, self.gvals = [], [], [], []
        self.states, self.cbx = [], []
        self.events = []
        # every fifth problem: the objective and the gradient work IN PLACE on the array they receive (C05 holds
        # for all objectives).  Derived from the problem, not drawn from rng: the random streams stay as they were.
        self.clobber = (int(abs(float(np.ravel(p.x0)[0])) * 1e6) % 5 == 0)

    def _maybe_fail(self, kind):
        n = sum(1 for e in self.events if e == kind)
        if self.fail_at is not None and self.fail_at[0] == kind and self.fail_at[1] == n:
            self.exc = self.fail_at[2]("boom in %s #%d" % (kind, n))
            raise self.exc

    def _clobber(self, x):
        if self.clobber and isinstance(x, np.ndarray) and x.flags.writeable and np.isrealobj(x):
            x *= 3.0
            x += 7.0

    def fun(self, x):
        self.events.append("fun")
        self._maybe_fail("fun")
        self.fpts.append(np.array(x, copy=True))
        v = self.p.f(np.array(x, copy=True)) * self.scale
        self.fvals.append(v)
        self._clobber(x)
        return v

    def jac(self, x):
        self.events.append("jac")
        self._maybe_fail("jac")
        self.gpts.append(np.array(x, copy=True))
        v = self.p.g(np.array(x, copy=True)) * self.scale
        self.gvals.append(np.array(v, copy=True))
        self._clobber(x)
        return v

    def callback(self, xk, state):
        self.events.append("callback")
        self._maybe_fail("callback")
        self.cbx.append(np.array(xk, copy=True))
        self.states.append((state, copy.deepcopy(state)))
        return False


def snap(res):
    return dict(x=np.array(res.x, copy=True), fun=float(res.fun), jac=np.array(res.jac, copy=True), nfev=int(res.nfev),
                njev=int(res.njev), nit=int(res.nit), message=str(res.message), success=bool(res.success),
                status=int(res.status), sk=np.array(res.hess_inv.sk, copy=True), yk=np.array(res.hess_inv.yk, copy=True))


def same_state(a, b, keys=("x", "fun", "jac", "nfev", "njev", "nit", "sk", "yk")):
    for k in keys:
        va, vb = a[k], b[k]
        if isinstance(va, np.ndarray):
            if va.shape != vb.shape or not np.array_equal(va, vb):
                return k
        elif va != vb:
            return k
    return None


def base_kwargs(rng, p, rec, jacmode="callable"):
    kw = dict(x0=p.x0.copy(), fun=rec.fun, bounds=p.bounds(), maxcor=int(rng.integers(1, 8)),
              maxiter=int(rng.integers(0, 25)), maxfun=int(rng.integers(1, 120)), maxls=int(rng.integers(1, 21)),
              ftol=float(rng.choice([0.0, 1e-12, 1e-8, 1e-3])), gtol=float(rng.choice([1e-10, 1e-6, 1e-3])))
    if jacmode == "callable":
        kw["jac"] = rec.jac
    else:
        kw["jac"] = jacmode
    return kw


# ------------------------------------------------------------------------------------------------ clauses
def pg_norm(x, g, lb, ub):
    return float(np.max(np.abs(np.clip(x - g, lb, ub) - x)))


def clause_C02(p, rec, res, kw, fails):
    for kind, pts in (("fun", rec.fpts), ("jac", rec.gpts), ("callback", rec.cbx)):
        for i, x in enumerate(pts):
            x = np.real(x)              # complex-step stencil points: the real part is the point
            if not (np.all(x >= p.lb) and np.all(x <= p.ub)):
                fails.append(("C02", f"{kind} call #{i} outside the box by {np.max(np.maximum(p.lb - x, x - p.ub)):.3e}"))
                return
    if res is not None:
        if not (np.all(res.x >= p.lb) and np.all(res.x <= p.ub)):
            fails.append(("C02", "returned x outside the box"))
        deg = p.lb == p.ub
        if np.any(deg) and not np.array_equal(res.x[deg], p.lb[deg]):
            fails.append(("C02", "component with lb == ub moved"))


def clause_C03(p, rec, res, kw, fails):
    if res is None or kw.get("update_fun_def") is not None or not rec.fvals:
        return
    seq = [rec.fvals[0]] + [float(s[1].fun) for s in rec.states] + [float(res.fun)]
    for a, b in zip(seq, seq[1:]):
        if b > a:
            fails.append(("C03", f"objective increased between accepted iterates: {a!r} -> {b!r} ({res.message})"))
            return


def clause_C04(p, rec, res, kw, fails, n0=1, nit0=0, ft_calls=None):
    if res is None:
        return
    m = res.message
    if m not in DOCUMENTED:
        sig = ""
        if not callable(kw.get("jac")) and np.any(p.lb == p.ub) and np.any(np.isnan(res.jac)):
            sig = " [sig:fd-mode+degenerate-bound->nan-gradient]"
        fails.append(("C04", f"undocumented termination message {m!r}{sig}"))
        return
    gt = kw["gtol"] if not callable(kw["gtol"]) else kw["_gtol_val"]
    ft = kw.get("ftarget")
    ft = kw.get("_ftarget_val") if callable(ft) else ft
    if m.startswith("CONVERGENCE: NORM") and not pg_norm(res.x, res.jac, p.lb, p.ub) <= gt:
        fails.append(("C04", "projected-gradient message but projected gradient > gtol"))
    if m == "CONVERGENCE: F_<=_TARGET" and not (ft is not None and res.fun / kw.get("_scale", 1.0) <= ft):
        fails.append(("C04", "target message but fun > ftarget"))
    if m.startswith("STOP: TOTAL NO. of ITER") and not res.nit >= kw["maxiter"]:
        fails.append(("C04", f"iteration-limit message with nit={res.nit} < maxiter={kw['maxiter']}"))
    if m.startswith("STOP: TOTAL NO. of f") and not res.nfev >= kw["maxfun"]:
        fails.append(("C04", f"evaluation-limit message with nfev={res.nfev} < maxfun={kw['maxfun']}"))
    if (res.success is False) != (m == "ABNORMAL_TERMINATION_IN_LNSRCH"):
        fails.append(("C04", f"success={res.success} with message {m!r}"))
    if res.nit > max(kw["maxiter"], nit0):
        fails.append(("C04", f"nit={res.nit} > max(maxiter={kw['maxiter']}, nit0={nit0})"))
    if callable(kw.get("jac")) and res.nfev > max(kw["maxfun"], n0) + 1:
        fails.append(("C04", f"nfev={res.nfev} > max(maxfun={kw['maxfun']}, n0={n0}) + 1"))


def clause_C05(p, rec, res, kw, fails, base=(0, 0)):
    if res is None:
        return
    s = kw.get("_scale", 1.0)
    if res.nfev != base[0] + len(rec.fpts):
        fails.append(("C05", f"nfev={res.nfev} but {base[0]}+{len(rec.fpts)} objective calls were made"))
    if callable(kw.get("jac")) and res.njev != base[1] + len(rec.gpts):
        fails.append(("C05", f"njev={res.njev} but {base[1]}+{len(rec.gpts)} gradient calls were made"))
    if kw.get("update_fun_def") is not None:
        return
    items = [(res.x, res.fun, res.jac, "result")] + [(st[1].x, st[1].fun, st[1].jac, f"callback state {i}")
                                                       for i, st in enumerate(rec.states)]
    for x, fv, jv, what in items:
        if (len(rec.gpts) + base[1]) == 0:
            continue
        if fv != p.f(np.array(x, copy=True)) * rec.scale * s:
            fails.append(("C05", f"{what}: fun is not the objective value at x"))
            return
        if callable(kw.get("jac")) and not np.array_equal(jv, p.g(np.array(x, copy=True)) * rec.scale * s):
            fails.append(("C05", f"{what}: jac is not the gradient at x"))
            return


def clause_C18(p, rec, res, kw, fails):
    if res is None or kw.get("update_fun_def") is not None or kw.get("checkpoint") is not None:
        return
    for what, st in [("result", res)] + [(f"callback state {i}", s[1]) for i, s in enumerate(rec.states)]:
        sk, yk = np.atleast_2d(st.hess_inv.sk), np.atleast_2d(st.hess_inv.yk)
        if sk.size == 0:
            continue
        if sk.shape[0] > kw["maxcor"]:
            fails.append(("C18", f"{what}: {sk.shape[0]} pairs > maxcor={kw['maxcor']}"))
            return
        if callable(kw.get("jac")):
            pts = rec.gpts
            vals = rec.gvals
            s = kw.get("_scale", 1.0)
            for k in range(sk.shape[0]):
                ok = False
                for i in range(len(pts)):
                    for j in range(i + 1, len(pts)):
                        if np.array_equal(pts[j] - pts[i], sk[k]) and np.array_equal(vals[j] * s - vals[i] * s, yk[k]):
                            ok = True
                            break
                    if ok:
                        break
                if not ok:
                    fails.append(("C18", f"{what}: pair {k} is not a difference of visited iterates / their gradients"))
                    return
        sy = np.einsum("ij,ij->i", sk, yk)
        if np.any(sy <= 0):
            fails.append(("C18", f"{what}: pair with s.y <= 0"))
            return


def clause_C14_inputs(p, kw_before, kw, fails):
    if not np.array_equal(kw_before["x0"], kw["x0"]):
        fails.append(("C14", "x0 modified"))
    if not np.array_equal(kw_before["bounds"], kw["bounds"], equal_nan=True):
        fails.append(("C14", "bounds modified"))
    ck0, ck1 = kw_before.get("checkpoint"), kw.get("checkpoint")
    if ck0 is not None:
        a, b = snap(ck0), snap(ck1)
        k = same_state(a, b, ("x", "fun", "jac", "nfev", "njev", "nit", "sk", "yk"))
        if k or a["message"] != b["message"]:
            fails.append(("C14", f"checkpoint field {k or 'message'} modified by the call"))


# ------------------------------------------------------------------------------------------------ scenarios
def run_once(p, kw, rec):
    try:
        if kw.get("callback") is None and "callback" in kw:
            kw = {k: v for k, v in kw.items() if k != "callback"}
        return minimize_lbfgsb(**{k: v for k, v in kw.items() if not k.startswith("_")}), None
    except Exception as e:      # noqa: BLE001
        return None, e


def scenario_basic(rng, props, fails, stats):
    """One monitored run, with options; clauses C02 C03 C04 C05 C18 C14(inputs)."""
    p = problem(rng)
    jacmode = "callable" if rng.random() < 0.7 else rng.choice([None, "2-point", "3-point", "cs"])
    if jacmode in ("cs",) and p.name in ("softplus",):
        jacmode = "2-point"
    rec = Rec(p)
    kw = base_kwargs(rng, p, rec, jacmode)
    if jacmode == "callable" and rng.random() < 0.12:
        kw["x0"] = kw["x0"].astype(np.float32)        # single-precision start (bounds stay double)
        kw["x0"] = np.clip(kw["x0"], p.lb, p.ub).astype(np.float32)
        if np.any(kw["x0"] < p.lb) or np.any(kw["x0"] > p.ub):
            kw["x0"] = p.x0.copy()
    r = rng.random()
    if r < 0.25:
        kw["ftarget"] = float(p.f(p.x0) - abs(rng.normal()) * 2)
    elif r < 0.4:
        v = float(p.f(p.x0) - abs(rng.normal()))
        calls = []

        def ft():
            calls.append(1)
            return v
        kw["ftarget"], kw["_ftarget_val"], kw["_ft_calls"] = ft, v, calls
    if rng.random() < 0.2:
        gv = float(kw["gtol"])
        gcalls = []

        def gt():
            gcalls.append(1)
            return gv
        kw["gtol"], kw["_gtol_val"], kw["_gt_calls"] = gt, gv, gcalls
    if rng.random() < 0.5:
        kw["callback"] = rec.callback
    before = copy.deepcopy({k: kw[k] for k in ("x0", "bounds")})
    res, exc = run_once(p, kw, rec)
    stats["runs"] += 1
    if exc is not None:
        if jacmode != "callable" and "C16" in props:
            fails.append(("C16", f"finite-difference run raised {type(exc).__name__}: {exc}"))
        elif jacmode == "callable":
            fails.append(("C20", f"fault-free run raised {type(exc).__name__}: {exc}"))
        return describe(p, kw)
    stats["nontrivial"] += int(res.nit > 0)
    clause_C02(p, rec, res, kw, fails)
    clause_C03(p, rec, res, kw, fails)
    clause_C04(p, rec, res, kw, fails)
    for nm in ("_ft_calls", "_gt_calls"):
        if nm in kw and len(kw[nm]) != 1:
            fails.append(("C04", f"stop-criterion callable invoked {len(kw[nm])} times"))
    clause_C05(p, rec, res, kw, fails)
    clause_C18(p, rec, res, kw, fails)
    clause_C14_inputs(p, before, kw, fails)
    # the callback states must not have changed after the callback returned (C07)
    for i, (live, frozen) in enumerate(rec.states):
        k = same_state(snap(live), snap(frozen))
        if k:
            fails.append(("C07", f"callback state {i}: field {k} changed after the callback returned"))
            break
    return describe(p, kw)


def scenario_restart(rng, props, fails, stats):
    """Run stopped by maxiter=k then restarted: C04 C05 C14 on the restart, counters add up."""
    p = problem(rng)
    rec1 = Rec(p)
    kw = base_kwargs(rng, p, rec1)
    kw["maxiter"] = int(rng.integers(0, 6))
    kw["maxfun"] = 500
    res1, exc = run_once(p, kw, rec1)
    stats["runs"] += 1
    if exc is not None:
        fails.append(("C20", f"fault-free run raised {type(exc).__name__}: {exc}"))
        return describe(p, kw)
    rec2 = Rec(p)
    kw2 = dict(kw)
    kw2.update(fun=rec2.fun, jac=rec2.jac, x0=res1.x.copy(), checkpoint=res1,
               maxiter=int(rng.integers(0, 12)), maxcor=int(rng.choice([kw["maxcor"], max(1, kw["maxcor"] - 1)])))
    if rng.random() < 0.3:
        kw2["ftarget"] = float(res1.fun + 1.0)
    if rng.random() < 0.3:
        kw2["callback"] = rec2.callback
    ro = rng.random() < 0.3
    if ro:
        for a in (res1.x, res1.jac, res1.hess_inv.sk, res1.hess_inv.yk):
            a.setflags(write=False)
    before = dict(x0=kw2["x0"].copy(), bounds=kw2["bounds"].copy(), checkpoint=copy.deepcopy(res1))
    res2, exc = run_once(p, kw2, rec2)
    stats["runs"] += 1
    if exc is not None:
        fails.append(("C14" if ro else "C20", f"restart raised {type(exc).__name__}: {exc} (read-only checkpoint={ro})"))
        return describe(p, kw2)
    stats["nontrivial"] += int(res2.nit > res1.nit)
    clause_C04(p, rec2, res2, kw2, fails, n0=res1.nfev, nit0=res1.nit)
    clause_C05(p, rec2, res2, kw2, fails, base=(res1.nfev, res1.njev))
    clause_C02(p, rec2, res2, kw2, fails)
    clause_C14_inputs(p, before, kw2, fails)
    # C18 on a restart (whatever made it stop, also with a reduced memory): at most maxcor pairs, positive curvature
    sk2, yk2 = np.atleast_2d(res2.hess_inv.sk), np.atleast_2d(res2.hess_inv.yk)
    if sk2.size and sk2.shape[0] > kw2["maxcor"]:
        fails.append(("C18", f"restart result: {sk2.shape[0]} pairs > maxcor={kw2['maxcor']} ({res2.message})"))
    if sk2.size and not np.all(np.einsum("ij,ij->i", sk2, yk2) > 0):
        fails.append(("C18", "restart result: a pair with s.y <= 0"))
    return describe(p, kw2)


def scenario_callback_checkpoint(rng, props, fails, stats):
    """C07: the state after iteration k equals the result of a run with maxiter=k; callback returning False is a no-op."""
    p = problem(rng)
    rec = Rec(p)
    kw = base_kwargs(rng, p, rec)
    kw["maxiter"] = int(rng.integers(1, 8))
    kw["maxfun"] = 400
    kw["callback"] = rec.callback
    res, exc = run_once(p, kw, rec)
    stats["runs"] += 1
    if exc is not None or not rec.states:
        return describe(p, kw)
    stats["nontrivial"] += 1
    rec0 = Rec(p)
    kw0 = dict(kw)
    kw0.update(fun=rec0.fun, jac=rec0.jac, callback=None)
    res0, _ = run_once(p, kw0, rec0)
    if res0 is not None:
        k = same_state(snap(res), snap(res0)) or (None if res.message == res0.message else "message")
        if k:
            fails.append(("C07", f"a callback returning False altered the run (field {k})"))
    # the callback is not invoked in an iteration whose line search failed: states are aligned by their own nit
    st = rec.states[int(rng.integers(0, len(rec.states)))][1]
    k = int(st.nit)
    reck = Rec(p)
    kwk = dict(kw0)
    kwk.update(fun=reck.fun, jac=reck.jac, maxiter=k)
    resk, _ = run_once(p, kwk, reck)
    if resk is not None and resk.nit == k and resk.message.startswith("STOP: TOTAL NO. of ITER"):
        kf = same_state(snap(st), snap(resk))
        if kf:
            fails.append(("C07", f"state with nit={k} differs from a run with maxiter={k} in field {kf} "
                                 f"({snap(st)[kf]!r} vs {snap(resk)[kf]!r})"))
    return describe(p, kw)


def scenario_determinism(rng, props, fails, stats):
    """C14: equal arguments -> bit-identical results; iprint/logger have no influence; nested call inside objective."""
    import logging
    p = problem(rng)
    outs = []
    lg = logging.getLogger("verif-silent")
    lg.addHandler(logging.NullHandler())
    lg.propagate = False
    lg.setLevel(logging.INFO)
    kw_seed = int(rng.integers(0, 2 ** 31))
    for variant in range(3):
        rec = Rec(p)
        kw = base_kwargs(np.random.default_rng(kw_seed), p, rec)
        if variant == 1:
            kw.update(iprint=int(rng.choice([0, 1, 99, 101])), logger=lg)
        if variant == 2:
            inner = problem(np.random.default_rng(kw_seed + 1))
            orig = rec.fun

            def nested(x, orig=orig, inner=inner):
                minimize_lbfgsb(x0=inner.x0.copy(), fun=inner.f, jac=inner.g, bounds=inner.bounds(), maxiter=3)
                return orig(x)
            kw["fun"] = nested
        res, exc = run_once(p, kw, rec)
        stats["runs"] += 1
        if exc is not None:
            fails.append(("C14", f"variant {variant} raised {type(exc).__name__}: {exc}"))
            return describe(p, kw)
        outs.append(snap(res))
    stats["nontrivial"] += int(outs[0]["nit"] > 0)
    for v in (1, 2):
        k = same_state(outs[0], outs[v]) or (None if outs[0]["message"] == outs[v]["message"] else "message")
        if k:
            fails.append(("C14", f"result field {k} differs between a plain run and "
                                 f"{'a logged run' if v == 1 else 'a run with a nested optimisation in the objective'}"))
    return describe(p, kw)


def _packaged_scaler_on_stationary_start(n, fails):
    """C17/C04: the packaged scaler is called on whatever start the run is given - also a stationary one (every
    variable on a bound with the gradient pushing outward): the run must end with a documented, truthful report."""
    from lbfgsb import get_gradient_projection_unit_scaling
    c = np.arange(1.0, n + 1.0)
    x0 = np.zeros(n)
    try:
        r = minimize_lbfgsb(x0=x0, fun=lambda x: float(c @ x), jac=lambda x: c.copy(),
                            bounds=np.array([np.zeros(n), np.ones(n)]).T,
                            gradient_scaler=get_gradient_projection_unit_scaling)
    except Exception as e:       # noqa: BLE001
        fails.append(("C17", f"packaged scaler on a stationary start: run raised {type(e).__name__}: {e}"))
        return
    if not (np.isfinite(r.fun) and np.all(np.isfinite(r.jac)) and r.success
            and str(r.message).startswith("CONVERGENCE: NORM_OF_PROJECTED_GRADIENT")):
        for pid in ("C17", "C04"):
            fails.append((pid, f"packaged scaler on a stationary start: message {r.message!r}, fun {r.fun}, "
                               f"success {r.success}"))


def scenario_scaler(rng, props, fails, stats):
    """C17: scaler returning s  ==  no scaler on (s*f, s*grad f)."""
    p = problem(rng)
    _packaged_scaler_on_stationary_start(p.n, fails)
    s = float(10 ** rng.uniform(-3, 3))
    sc_calls = []
    recA = Rec(p)
    kw = base_kwargs(rng, p, recA)
    reuse = bool(rng.random() < 0.4)

    def wrap_jac(rec):
        """a gradient callable that writes into and returns the same buffer on every call (legitimate user code)"""
        buf = np.zeros(p.n)
        inner = rec.jac

        def jac(x):
            buf[:] = inner(x)
            return buf
        return jac if reuse else inner
    kw["jac"] = wrap_jac(recA)

    def scaler(x, g, lb, ub):
        sc_calls.append((x.copy(), g.copy(), lb.copy(), ub.copy()))
        return s
    kwA = dict(kw, gradient_scaler=scaler)
    resA, excA = run_once(p, kwA, recA)
    recB = Rec(p, scale=s)
    kwB = dict(kw, fun=recB.fun, jac=wrap_jac(recB))
    resB, excB = run_once(p, kwB, recB)
    stats["runs"] += 2
    if excA is not None or excB is not None:
        if (excA is None) != (excB is None):
            fails.append(("C17", f"one of the two runs raised: {excA!r} / {excB!r}"))
        return describe(p, kw)
    stats["nontrivial"] += int(resA.nit > 0)
    if len(recA.gpts) > 0:
        if len(sc_calls) != 1:
            fails.append(("C17", f"scaler invoked {len(sc_calls)} times"))
        else:
            x, g, lb, ub = sc_calls[0]
            if not (np.array_equal(x, np.clip(p.x0, p.lb, p.ub)) and np.array_equal(g, p.g(x.copy()))
                    and np.array_equal(lb, p.lb) and np.array_equal(ub, p.ub)):
                fails.append(("C17", "scaler not called with (start point, unscaled gradient, bounds)"))
    if len(recA.fpts) != len(recB.fpts) or any(not np.array_equal(a, b) for a, b in zip(recA.fpts, recB.fpts)):
        fails.append(("C17", "the two runs evaluate the objective at different points"))
    k = same_state(snap(resA), snap(resB))
    if k:
        fails.append(("C17", f"result field {k} differs between scaler run and explicitly scaled objective"))
    return describe(p, kw)


class UserFault(Exception):
    """an exception class of the user's own"""


def scenario_faults(rng, props, fails, stats):
    """C20: an exception raised by a user callable at call index i propagates unchanged; a later identical fault-free
    call returns what a fresh call returns."""
    p = problem(rng)
    rec0 = Rec(p)
    kw = base_kwargs(rng, p, rec0)
    kw["callback"] = rec0.callback
    res0, exc = run_once(p, kw, rec0)
    stats["runs"] += 1
    if exc is not None:
        return describe(p, kw)
    kind = rng.choice(["fun", "jac", "callback", "ftarget", "gtol", "scaler"])
    ecls = rng.choice([ValueError, TypeError, RuntimeError, KeyError, ZeroDivisionError, FloatingPointError,
                       StopIteration, AssertionError, OSError, UserFault])
    kw1 = dict(kw)
    marker = {}
    if kind in ("fun", "jac", "callback"):
        n = sum(1 for e in rec0.events if e == kind)
        if n == 0:
            return describe(p, kw)
        rec1 = Rec(p, fail_at=(kind, int(rng.integers(0, n)), ecls))
        kw1.update(fun=rec1.fun, jac=rec1.jac, callback=rec1.callback)
    else:
        rec1 = Rec(p)
        kw1.update(fun=rec1.fun, jac=rec1.jac, callback=rec1.callback)

        def bad(*a):
            marker["exc"] = ecls("boom in " + kind)
            raise marker["exc"]
        kw1[{"ftarget": "ftarget", "gtol": "gtol", "scaler": "gradient_scaler"}[kind]] = bad
    res1, exc1 = run_once(p, kw1, rec1)
    stats["runs"] += 1
    stats["nontrivial"] += 1
    expected = getattr(rec1, "exc", None) or marker.get("exc")
    if expected is not None:
        if exc1 is None:
            fails.append(("C20", f"{ecls.__name__} raised by {kind} was swallowed: run returned {res1.message!r}"))
        elif exc1 is not expected:
            fails.append(("C20", f"{ecls.__name__} raised by {kind} surfaced as {type(exc1).__name__}: {exc1}"))
    rec2 = Rec(p)
    kw2 = dict(kw, fun=rec2.fun, jac=rec2.jac, callback=rec2.callback)
    res2, exc2 = run_once(p, kw2, rec2)
    if exc2 is not None or same_state(snap(res0), snap(res2)):
        fails.append(("C20", "a fault-free call after the faulty one differs from the reference run"))
    return describe(p, kw)


def scenario_linesearch(rng, props, fails, stats):
    """C11: the real line_search on a feasible start and a projected-gradient direction."""
    from lbfgsb.linesearch import line_search, max_allowed_steplength
    from lbfgsb.scalar_function import prepare_scalar_function
    p = problem(rng, kind=rng.choice(["osc", "rosen", "qp", "qp4"]))
    rec = Rec(p)
    x0 = p.x0.copy()
    g0 = p.g(x0.copy())
    t = 10 ** rng.uniform(-3, 1)
    d = np.clip(x0 - t * g0, p.lb, p.ub) - x0
    if not np.any(d != 0):
        return describe(p, {})
    cap = int(rng.integers(1, 21))
    above = int(rng.choice([0, 1, 7]))
    boxed = bool(np.all(np.isfinite(p.lb)) and np.all(np.isfinite(p.ub)))
    sf = prepare_scalar_function(rec.fun, x0, jac=rec.jac, bounds=(p.lb, p.ub))
    f0 = sf.fun(x0)
    g = sf.grad(x0)
    nb = len(rec.fpts)
    try:
        stp = line_search(x0, f0, g, d, p.lb, p.ub, above, 1e8, boxed, sf, max_iter=cap)
    except Exception as e:       # noqa: BLE001
        fails.append(("C11", f"line_search raised {type(e).__name__}: {e}"))
        return describe(p, {"cap": cap})
    stats["runs"] += 1
    stats["nontrivial"] += int(stp is not None)
    for x in rec.fpts + rec.gpts:
        if not (np.all(x >= p.lb) and np.all(x <= p.ub)):
            fails.append(("C11", "line search evaluated a point outside the box"))
            break
    if len(rec.fpts) - nb > cap:
        fails.append(("C11", f"{len(rec.fpts) - nb} objective evaluations with a cap of {cap}"))
    if stp is not None:
        smax = max_allowed_steplength(x0, d, p.lb, p.ub, 1e8, above)
        if not (0 < stp <= smax):
            fails.append(("C11", f"step {stp!r} not in (0, {smax!r}]"))
        fv = p.f(np.clip(x0 + stp * d, p.lb, p.ub))
        if not fv < f0:
            fails.append(("C11", f"returned step is not strictly downhill: {f0!r} -> {fv!r}"))
    return describe(p, {"cap": cap, "above_iter": above})


def scenario_restart_equiv(rng, props, fails, stats):
    """C06: stop at k by maxiter, restart -> same pairs with zero iterations, same next iterate as uninterrupted."""
    p = problem(rng, kind=rng.choice(["qp", "qp4", "rosen", "softplus"]))
    its = []
    kw = dict(x0=p.x0.copy(), fun=p.f, jac=p.g, bounds=p.bounds(), maxcor=int(rng.integers(1, 7)), ftol=0.0, gtol=1e-12,
              maxfun=10000)
    K = int(rng.integers(2, 9))
    full, exc = run_once(p, dict(kw, maxiter=K, callback=lambda x, s: its.append((x.copy(), copy.deepcopy(s))) or False), None)
    by_nit = {int(s_.nit): (x_, s_) for x_, s_ in its}     # no callback in an iteration whose line search failed
    stats["runs"] += 1
    if exc is not None or full.nit < 2 or not full.message.startswith("STOP: TOTAL NO. of ITER"):
        return describe(p, kw)
    k = int(rng.integers(1, full.nit))
    a, _ = run_once(p, dict(kw, maxiter=k), None)
    if a is None or a.nit != k:
        return describe(p, kw)
    stats["nontrivial"] += 1
    z, _ = run_once(p, dict(kw, x0=a.x.copy(), checkpoint=a, maxiter=k), None)
    def close(u, v):
        return u.shape == v.shape and np.allclose(u, v, rtol=1e-9, atol=1e-9 * max(1.0, float(np.max(np.abs(v), initial=0))))
    if z is None or not (close(z.hess_inv.sk, a.hess_inv.sk) and close(z.hess_inv.yk, a.hess_inv.yk)):
        fails.append(("C06", "a restart that performs no iteration does not return the checkpoint's correction pairs"))
    def rejected_sig(upto):
        """known finding KF2: some update at an iteration <= `upto` of the uninterrupted run was rejected by the
        curvature test (pair count did not grow although the memory was not full, no line-search reset): the result
        then no longer determines the last stored point"""
        prev = 0
        for it_ in sorted(by_nit):
            if it_ > upto:
                break
            rows = int(np.atleast_2d(by_nit[it_][1].hess_inv.sk).shape[0]) if by_nit[it_][1].hess_inv.sk.size else 0
            if rows <= prev and rows < kw["maxcor"] and rows >= 1:
                return " [sig:restart-after-a-rejected-curvature-pair]"
            prev = rows
        return ""
    mc2 = int(rng.choice([kw["maxcor"], max(1, kw["maxcor"] - 1)]))
    chain = a
    for step in range(int(rng.integers(1, 4))):
        if chain.nit >= full.nit:
            break
        nxt, exc = run_once(p, dict(kw, x0=chain.x.copy(), checkpoint=chain, maxiter=chain.nit + 1, maxcor=mc2), None)
        if exc is not None:
            fails.append(("C06", f"restart raised {type(exc).__name__}: {exc}"))
            return describe(p, kw)
        if mc2 == kw["maxcor"]:
            ref = by_nit[nxt.nit][0] if nxt.nit in by_nit else None
            if ref is not None and nxt.nit == chain.nit + 1:
                err = np.max(np.abs(nxt.x - ref)) / max(1.0, np.max(np.abs(ref)))
                if err > 1e-7:
                    for pid in ("C06", "C07"):
                        fails.append((pid, f"iterate {nxt.nit} after a restart at {chain.nit} differs from the "
                                           f"uninterrupted run by {err:.2e} (relative){rejected_sig(chain.nit)}"))
                    break
                st_ref = by_nit[nxt.nit][1]
                if (nxt.nfev, nxt.njev) != (st_ref.nfev, st_ref.njev):
                    for pid in ("C06", "C07"):
                        fails.append((pid, f"counters after a restart at {chain.nit} differ from the uninterrupted run at "
                                           f"iteration {nxt.nit}: (nfev, njev) = {(nxt.nfev, nxt.njev)} vs "
                                           f"{(st_ref.nfev, st_ref.njev)}{rejected_sig(chain.nit)}"))
                    break
        else:
            if nxt.hess_inv.sk.shape[0] > mc2:
                fails.append(("C06", "restart with reduced maxcor keeps more than maxcor pairs"))
        chain = nxt
    # C07: the same continuation from the STATE kept by the callback at iteration k (a crash checkpoint; its report
    # fields are those of a running solver), not only from a returned result
    if k in by_nit and (k + 1) in by_nit:
        st = copy.deepcopy(by_nit[k][1])
        nx, exc = run_once(p, dict(kw, x0=np.array(st.x, copy=True), checkpoint=st, maxiter=k + 1), None)
        if exc is not None:
            fails.append(("C07", f"restart from the callback state of iteration {k} raised {type(exc).__name__}: {exc}"))
        elif nx.nit == k + 1:
            ref_x, ref_s = by_nit[k + 1]
            err = np.max(np.abs(nx.x - ref_x)) / max(1.0, np.max(np.abs(ref_x)))
            if err > 1e-7:
                fails.append(("C07", f"iterate {k + 1} after a restart from the callback state of iteration {k} differs "
                                     f"from the uninterrupted run by {err:.2e} (relative){rejected_sig(k)}"))
            elif (nx.nfev, nx.njev) != (ref_s.nfev, ref_s.njev):
                fails.append(("C07", f"counters after a restart from the callback state of iteration {k} differ from the "
                                     f"uninterrupted run: {(nx.nfev, nx.njev)} vs {(ref_s.nfev, ref_s.njev)}"
                                     f"{rejected_sig(k)}"))
    return describe(p, kw)


def scenario_update_identity(rng, props, fails, stats):
    """C13: identity update function == no update function (bit for bit); rewritten gradients -> genuine pairs."""
    p = problem(rng)
    rec = Rec(p)
    kw = base_kwargs(rng, p, rec)
    if rng.random() < 0.5:
        kw["ftarget"] = float(p.f(p.x0) - abs(rng.normal()) * 3)
    kw["ftol"] = float(rng.choice([0.0, 1e-10, 1e-2, 10.0]))
    a, ea = run_once(p, kw, rec)
    rec2 = Rec(p)
    kw2 = dict(kw, fun=rec2.fun, jac=rec2.jac, update_fun_def=lambda x, f0, f0_old, g, X, G: (f0, f0_old, g, G))
    b, eb = run_once(p, kw2, rec2)
    stats["runs"] += 2
    if ea is not None or eb is not None:
        if (ea is None) != (eb is None):
            fails.append(("C13", f"only one of the two runs raised: {ea!r} / {eb!r}"))
        return describe(p, kw)
    stats["nontrivial"] += int(a.nit > 0)
    k = same_state(snap(a), snap(b)) or (None if a.message == b.message else "message")
    if k:
        fails.append(("C13", f"identity update function changed the run: field {k} ({snap(a)[k]!r} vs {snap(b)[k]!r})"))
    # rewriting update function: rescale every stored gradient at iteration j -> pairs are differences of rewritten G
    j = int(rng.integers(1, 5))
    calls = [0]
    last = {}
    inplace = bool(rng.random() < 0.5)

    def upd(x, f0, f0_old, g, X, G):
        calls[0] += 1
        if calls[0] == j + 1:
            w = float(rng.uniform(0.3, 3.0))
            flip = rng.random() < 0.5
            from collections import deque as dq
            if inplace:
                # the user rewrites the stored gradient arrays in place and hands the same deque back
                for i, gi in enumerate(G):
                    gi *= (-w if (flip and i % 2 == 0 and i < len(G) - 1) else w)
                G2 = G
            else:
                G2 = dq([(-gi if (flip and i % 2 == 0 and i < len(G) - 1) else gi) * w for i, gi in enumerate(G)])
            last["G"] = [np.array(gi, copy=True) for gi in G2]
            last["X"] = [np.array(xi, copy=True) for xi in X]
            return f0 * w, f0 * w, (G2[-1] if inplace else g * w), G2
        return f0, f0_old, g, G
    rec3 = Rec(p)
    states3 = []
    kw3 = dict(kw, fun=rec3.fun, jac=rec3.jac, update_fun_def=upd, maxiter=j + 1, ftol=0.0, ftarget=None, maxfun=10000,
               callback=lambda xk, st: states3.append(copy.deepcopy(st)) or False)
    c, ec = run_once(p, kw3, rec3)
    stats["runs"] += 1
    if ec is not None and "G" in last:
        fails.append(("C13", f"run raised {type(ec).__name__} after the update function rewrote the gradients "
                             f"({'in place' if inplace else 'new arrays'}): {str(ec)[:80]}"))
    if ec is None and "G" in last and len(states3) >= j:
        st = states3[j - 1]                 # the state right after the iteration in which the gradients were rewritten
        sk, yk = np.atleast_2d(st.hess_inv.sk), np.atleast_2d(st.hess_inv.yk)
        if sk.size:
            stats["nontrivial"] += 1
            if np.any(np.einsum("ij,ij->i", sk, yk) <= 0):
                fails.append(("C13", "state after the rewrite carries a correction pair with s.y <= 0"))
            GG = last["G"] + [np.array(st.jac, copy=True)]
            for row in yk:
                if not any(np.allclose(GG[b2] - GG[a2], row, rtol=1e-12, atol=0) for a2 in range(len(GG))
                           for b2 in range(a2 + 1, len(GG))):
                    fails.append(("C13", "a pair carried after the rewrite is not a difference of the rewritten gradients"))
                    break
    return describe(p, kw)


def scenario_fd(rng, props, fails, stats):
    """C16: finite-difference modes with active bounds: no exception, stencil inside the box, value close to exact."""
    p = problem(rng, kind=rng.choice(["qp", "qp4", "softplus"]))
    mode = rng.choice([None, "2-point", "3-point", "cs"])
    if mode == "cs" and p.name == "softplus":
        mode = "3-point"
    rec = Rec(p)
    kw = dict(x0=p.x0.copy(), fun=rec.fun, jac=mode, bounds=p.bounds(), maxcor=int(rng.integers(1, 8)), maxiter=200,
              maxfun=20000, ftol=1e-12, gtol=1e-7)
    res, exc = run_once(p, kw, rec)
    stats["runs"] += 1
    if exc is not None:
        fails.append(("C16", f"finite-difference run ({mode}) raised {type(exc).__name__}: {exc}"))
        return describe(p, kw)
    stats["nontrivial"] += int(res.nit > 0)
    for x in rec.fpts:
        xr = np.real(x)
        if not (np.all(xr >= p.lb) and np.all(xr <= p.ub)):
            fails.append(("C16", f"stencil/evaluation point outside the box ({mode})"))
            break
    if res.nfev != len(rec.fpts):
        fails.append(("C16", f"nfev={res.nfev} but {len(rec.fpts)} objective evaluations (incl. stencil) were made"))
    ex, _ = run_once(p, dict(kw, fun=p.f, jac=p.g), None)
    if ex is not None and ex.message.startswith("CONVERGENCE: NORM") and res.message.startswith("CONVERGENCE"):
        tol = 1e-5 if mode in (None, "2-point") else 1e-7
        if res.fun - ex.fun > tol * max(1.0, abs(ex.fun)):
            fails.append(("C16", f"FD solution ({mode}) worse than the exact-gradient solution by {res.fun - ex.fun:.2e}"))
    # another finite-difference solve (other dimension, other box, other mode) started while this one is in progress
    # must not change anything: same evaluation points, same result
    if rng.random() < 0.3:
        rec2 = Rec(p)
        calls = [0]

        def fun_nested(x):
            calls[0] += 1
            if calls[0] == 3:
                minimize_lbfgsb(x0=np.array([5.5]), fun=lambda z: float((z[0] - 7.0) ** 2), jac="3-point",
                                bounds=np.array([[5.0, 6.0]]), maxiter=5)
            return rec2.fun(x)
        res2, exc2 = run_once(p, dict(kw, fun=fun_nested), rec2)
        if exc2 is not None:
            fails.append(("C16", f"finite-difference run ({mode}) with a nested finite-difference solve raised "
                                 f"{type(exc2).__name__}: {exc2}"))
        elif len(rec2.fpts) != len(rec.fpts) or any(not np.array_equal(a, b) for a, b in zip(rec.fpts, rec2.fpts)):
            fails.append(("C16", f"a nested finite-difference solve changed the evaluation points of the outer one ({mode})"))
    return describe(p, kw)


def scenario_kkt(rng, props, fails, stats):
    """C01: strictly convex box problems reach a first-order point when limited only by gtol."""
    p = problem(rng, kind=rng.choice(["qp", "qp4", "softplus"]), n=int(rng.integers(1, 13)))
    gtol = 1e-6
    kw = dict(x0=p.x0.copy(), fun=p.f, jac=p.g, bounds=p.bounds(), maxcor=int(rng.integers(1, 11)), ftol=0.0, gtol=gtol,
              maxiter=5000, maxfun=100000)
    res, exc = run_once(p, kw, None)
    stats["runs"] += 1
    if exc is not None:
        fails.append(("C01", f"run raised {type(exc).__name__}: {exc}"))
        return describe(p, kw)
    stats["nontrivial"] += int(res.nit > 0)
    pg = pg_norm(res.x, p.g(res.x.copy()), p.lb, p.ub)
    # level of the floating-point resolution of the objective: a decrease pg^2/(2L) below eps*|f| cannot be observed
    L = getattr(p, "L", 1.0) * (1.0 + 3.0 * float(np.max(np.abs(res.x))) ** 2)
    resolution = math.sqrt(2.0 * L * np.finfo(float).eps * max(1.0, abs(p.f(res.x.copy()))))
    if not pg <= 10 * max(gtol, resolution):
        fails.append(("C01", f"projected gradient {pg:.3e} at the returned point (gtol={gtol}, message {res.message!r}, "
                             f"nit={res.nit})"))
    return describe(p, kw)


TOL_C12 = float(os.environ.get("C12_TOL", "1e-7"))   # unchanged tree: largest deviation 9.5e-9 in 6000 sampled runs


def scenario_scipy(rng, props, fails, stats):
    """C12: unconstrained problems - same evaluation points as SciPy's L-BFGS-B while no documented deviation fires.
    Also on rescaled copies f_e(x) = e * F(x / e) (Algorithm 778 has no absolute constant that such a scaling could
    meet) and with a gradient callable that reuses one output buffer (legitimate user code)."""
    from scipy.optimize import minimize
    kind = rng.choice(["qp4", "softplus", "rosen"])
    n = int(rng.integers(2, 9))
    p = problem(rng, kind=kind, n=n)
    p.lb[:] = -np.inf
    p.ub[:] = np.inf
    x0 = rng.uniform(-1.5, 1.5, p.n)
    m = int(rng.integers(1, 9))
    # only down-scaled copies: on up-scaled ones the documented first-iteration step cap (stpmax = 1 at iteration 0)
    # binds after the first trial and the sequences legitimately part
    e = float(rng.choice([1.0, 1.0, 1.0, 1e-10, 1e-5, 1e-3]))
    reuse = bool(rng.random() < 0.4)
    mine, ref = [], []
    buf = np.zeros(p.n)

    def F(x):
        return e * p.f(x / e)

    def G(x):
        return p.g(x / e)

    def g1(x):
        if reuse:
            buf[:] = G(x)
            return buf
        return G(x)

    def f1(x):
        mine.append(x.copy())
        return F(x)

    def f2(x):
        ref.append(x.copy())
        return F(x)
    x0 = x0 * e
    r1, exc = run_once(p, dict(x0=x0.copy(), fun=f1, jac=g1, maxcor=m, maxiter=12, ftol=0.0, gtol=1e-9, maxfun=500), None)
    r2 = minimize(f2, x0.copy(), jac=G, method="L-BFGS-B", options=dict(maxcor=m, maxiter=12, ftol=0.0, gtol=1e-9,
                                                                        maxfun=500, maxls=20))
    stats["runs"] += 1
    if exc is not None:
        fails.append(("C12", f"run raised {type(exc).__name__}: {exc}"))
        return describe(p, {})
    # documented deviation 1/3: the very first trial (first-iteration step cap / unit first step) may differ; compare
    # sequences only when the first two evaluation points agree, and stop at the first line search with >1 trials in
    # either run after which 'lowest trial instead of last' may select differently
    L = min(len(mine), len(ref))
    if L < 3 or np.max(np.abs(mine[1] - ref[1])) > 1e-8 * max(e, np.max(np.abs(ref[1]))):
        return describe(p, {})
    stats["nontrivial"] += 1
    for i in range(L):
        err = np.max(np.abs(mine[i] - ref[i])) / max(e, np.max(np.abs(ref[i])))
        if err > TOL_C12:
            # deviation 2: a multi-trial line search happened before -> not comparable any further
            multi = any(np.allclose(mine[j] - mine[j - 1], 0, atol=1e-8 * e) for j in range(1, i))
            fvals = [F(x) for x in mine[:i + 1]]
            nonmono = any(fvals[j] > fvals[j - 1] for j in range(1, len(fvals)))
            if not nonmono and not multi:
                fails.append(("C12", f"evaluation point #{i} differs from SciPy's L-BFGS-B by {err:.2e} (relative) with "
                                     f"no deviation trigger before it (scale {e:g}, buffer-reusing gradient: {reuse})"))
            break
    return describe(p, {"maxcor": m, "scale": e, "reuse": reuse})


def _memory(rng, n, m, convex=True):
    """real LBFGSB_MATRICES built by the real update_lbfgs_matrices from m accepted pairs (plus rejected candidates)"""
    from collections import deque
    from lbfgsb.bfgsmats import LBFGSB_MATRICES, update_lbfgs_matrices
    A = rng.normal(size=(n, n))
    H = A @ A.T + np.eye(n) * rng.uniform(0.1, 2.0)
    X, G = deque([rng.normal(size=n)]), deque()
    G.append(H @ X[0])
    mats = LBFGSB_MATRICES(n)
    maxcor = max(1, m)
    log = []
    for k in range(m + int(rng.integers(0, 3))):
        xk = X[-1] + rng.normal(size=n) * 10 ** rng.uniform(-2, 0)
        gk = H @ xk
        if rng.random() < 0.25:
            gk = G[-1] - (gk - G[-1])          # negative curvature candidate -> must be rejected
        before = (len(X), [a.copy() for a in X], mats.theta, mats.W.copy())
        mats = update_lbfgs_matrices(xk.copy(), gk.copy(), X, G, maxcor, mats, False)
        log.append((before, len(X)))
    return mats, X, G, maxcor, log


def _dense_B(mats, n):
    from lbfgsb.bfgsmats import bmv
    if not mats.use_factor:
        return mats.theta * np.eye(n)
    q = mats.W.shape[1]
    M = np.column_stack([bmv(mats.invMfactors, e) for e in np.eye(q)])
    return mats.theta * np.eye(n) - mats.W @ M @ mats.W.T


def scenario_bfgs(rng, props, fails, stats):
    """C10: compact matrix == dense BFGS recursion over the stored pairs; SPD; secant; memory discipline."""
    n, m = int(rng.integers(1, 13)), int(rng.integers(1, 11))
    mats, X, G, maxcor, log = _memory(rng, n, m)
    stats["runs"] += 1
    S = np.diff(np.array(X), axis=0)
    Y = np.diff(np.array(G), axis=0)
    if len(S) == 0:
        return {"n": n, "m": m}
    stats["nontrivial"] += 1
    if len(S) > maxcor:
        fails.append(("C10", f"{len(S)} pairs stored with maxcor={maxcor}"))
    eps = 2.2e-16
    if np.any(np.einsum("ij,ij->i", S, Y) <= eps * np.einsum("ij,ij->i", Y, Y)):
        fails.append(("C10", "a stored pair violates the curvature condition"))
    B = _dense_B(mats, n)
    theta = (Y[-1] @ Y[-1]) / (S[-1] @ Y[-1])
    Bd = theta * np.eye(n)
    for s_, y_ in zip(S, Y):
        Bs = Bd @ s_
        Bd = Bd - np.outer(Bs, Bs) / (s_ @ Bs) + np.outer(y_, y_) / (y_ @ s_)
    tol = 1e-7 * max(1.0, np.linalg.cond(Bd)) * np.max(np.abs(Bd))
    if np.max(np.abs(B - Bd)) > tol:
        fails.append(("C10", f"compact matrix differs from the dense BFGS recursion by {np.max(np.abs(B - Bd)):.2e}"))
    elif np.min(np.linalg.eigvalsh(0.5 * (B + B.T))) <= 0:
        fails.append(("C10", "limited-memory matrix is not positive definite"))
    elif np.max(np.abs(B @ S[-1] - Y[-1])) > tol * 10:
        fails.append(("C10", "secant equation violated for the newest pair"))
    return {"n": n, "m": m, "pairs": len(S)}


def scenario_cauchy(rng, props, fails, stats):
    """C08: the real get_cauchy_point against an independent piecewise search on the dense model."""
    from lbfgsb.cauchy import get_cauchy_point
    n = int(rng.integers(1, 11))
    m = int(rng.integers(0, 6))
    mats, X, G, maxcor, _ = _memory(rng, n, m)
    lb, ub = make_box(rng, n, None)
    x = start_in(rng, lb, ub)
    g = rng.normal(size=n) * 10 ** rng.uniform(-1, 1)
    g[rng.random(n) < 0.15] = 0.0
    # exact ties between breakpoints (symmetric problems produce them): two or three variables reach their bound
    # at the same t = 2^-k (dyadic data, so that the quotients are exact)
    tie = bool(n >= 2 and rng.random() < 0.25)
    if tie:
        k = int(rng.integers(2, min(n, 3) + 1))
        idx = rng.choice(n, size=k, replace=False)
        T = 0.5 ** int(rng.integers(1, 4))
        for i in idx:
            gi = float(rng.choice([1.0, 2.0, 0.5, -1.0, -2.0, 4.0]))
            g[i] = gi
            if gi > 0:
                lb[i] = float(rng.integers(-2, 3))
                x[i] = lb[i] + T * gi
                ub[i] = max(ub[i], x[i] + 1.0)
            else:
                ub[i] = float(rng.integers(-2, 3))
                x[i] = ub[i] + T * gi
                lb[i] = min(lb[i], x[i] - 1.0)
    if pg_norm(x, g, lb, ub) == 0:
        return {"n": n}
    B = _dense_B(mats, n)
    stats["runs"] += 1
    x0, g0 = x.copy(), g.copy()
    xcp, c = get_cauchy_point(x, g, lb, ub, mats, 1 if m else 0, -1, None)
    if not (np.array_equal(x, x0) and np.array_equal(g, g0)):
        fails.append(("C08", "get_cauchy_point modified its arguments"))
    if not (np.all(xcp >= lb) and np.all(xcp <= ub)):
        fails.append(("C08", "Cauchy point outside the box"))
        return {"n": n}
    with np.errstate(divide="ignore", invalid="ignore"):
        t = np.where(g < 0, (x - ub) / g, np.where(g > 0, (x - lb) / g, np.inf))
    bps = sorted(set(v for v in t if v > 0 and np.isfinite(v)))
    if len(set(np.round(np.array(bps), 12))) != len(bps):
        return {"n": n}                           # near-ties: only feasibility / decrease are claimed
    if tie:
        # exact ties: whatever the order in which tied variables are processed, the result is a point of the
        # projected path: x_cp == P(x - t g) for some t >= 0, and every variable whose breakpoint is <= t is pinned
        stats["nontrivial"] += 1
        moving = (g != 0) & (t > 0) & (xcp != lb) & (xcp != ub)
        if np.any(moving):
            tt = float(np.median(((x - xcp) / np.where(g != 0, g, 1.0))[moving]))
        else:
            tt = float(np.max(t[np.isfinite(t)], initial=0.0))
        onpath = np.clip(x - tt * g, lb, ub)
        if np.max(np.abs(xcp - onpath)) > 1e-7 * max(1.0, float(np.max(np.abs(onpath)))):
            fails.append(("C08", f"tied breakpoints: the Cauchy point is not on the projected path (off by "
                                 f"{np.max(np.abs(xcp - onpath)):.2e} at t = {tt:.3g})"))
        reached = (g != 0) & (t <= tt * (1 - 1e-9))
        if np.any(reached & (xcp != lb) & (xcp != ub)):
            fails.append(("C08", "tied breakpoints: a variable that reached its bound is not exactly on it"))
        mval = g @ (xcp - x) + 0.5 * (xcp - x) @ B @ (xcp - x)
        if mval > 1e-10 * max(1.0, abs(g @ g)):
            fails.append(("C08", f"model value at the Cauchy point is larger than at x ({mval:.2e})"))
        return {"n": n, "m": m, "tie": True}
    stats["nontrivial"] += 1
    prev, tstar = 0.0, None
    for b in bps + [np.inf]:
        d = np.where(t > prev, -g, 0.0)
        xp = np.clip(x - prev * g, lb, ub)
        fp = g @ d + d @ B @ (xp - x)
        fpp = d @ B @ d
        if fpp <= 0:
            tstar = prev
            break
        dt = -fp / fpp
        if fp >= 0:
            tstar = prev
            break
        if prev + dt < b:
            tstar = prev + dt
            break
        prev = b
    if tstar is None:
        tstar = prev
    ref = np.clip(x - tstar * g, lb, ub)
    scale = max(1.0, float(np.max(np.abs(ref))))
    if np.max(np.abs(xcp - ref)) > 1e-6 * scale * max(1.0, np.linalg.cond(B)) ** 0.5:
        fails.append(("C08", f"Cauchy point differs from the first local minimiser on the projected path by "
                             f"{np.max(np.abs(xcp - ref)):.2e}"))
    pinned = (t <= tstar * (1 - 1e-9)) & (g != 0)
    if np.any(pinned & (xcp != lb) & (xcp != ub)):
        fails.append(("C08", "a variable that reached its bound is not exactly on it"))
    mval = g @ (xcp - x) + 0.5 * (xcp - x) @ B @ (xcp - x)
    if mval > 1e-10 * max(1.0, abs(g @ g)):
        fails.append(("C08", f"model value at the Cauchy point is larger than at x ({mval:.2e})"))
    if np.any((xcp != lb) & (xcp != ub)) and np.max(np.abs(c - mats.W.T @ (xcp - x))) > 1e-7 * max(1.0, np.max(np.abs(c))):
        fails.append(("C08", "auxiliary vector is not W^T (x_cp - x)"))
    return {"n": n, "m": m}


def scenario_subspace(rng, props, fails, stats):
    """C09: the real subspace step against a dense solve of the reduced Newton system."""
    from lbfgsb.cauchy import get_cauchy_point
    from lbfgsb.subspacemin import get_freev, subspace_minimization
    n = int(rng.integers(1, 11))
    m = int(rng.integers(0, 6))
    mats, X, G, maxcor, _ = _memory(rng, n, m)
    lb, ub = make_box(rng, n, None)
    x = start_in(rng, lb, ub)
    g = rng.normal(size=n) * 10 ** rng.uniform(-1, 1)
    if pg_norm(x, g, lb, ub) == 0:
        return {"n": n}
    B = _dense_B(mats, n)
    # the same memory is used for two successive calls (as in a run where an update was skipped): warm-up call first
    for rep_ in range(int(rng.integers(0, 2))):
        x2 = start_in(rng, lb, ub)
        g2 = rng.normal(size=n)
        if pg_norm(x2, g2, lb, ub) > 0:
            xcp2, c2 = get_cauchy_point(x2, g2, lb, ub, mats, 1 if m else 0, -1, None)
            fv2, Z2, A2 = get_freev(xcp2, lb, ub, 1, None, -1, None)
            subspace_minimization(x2, xcp2, fv2, Z2, A2, c2, g2, lb, ub, mats)
    xcp, c = get_cauchy_point(x, g, lb, ub, mats, 1 if m else 0, -1, None)
    prev = np.flatnonzero(rng.random(n) < 0.5) if rng.random() < 0.7 else None
    fv, Z, A = get_freev(xcp, lb, ub, 1 if prev is not None else 0, prev, -1, None)
    xc0 = xcp.copy()
    xbar = subspace_minimization(x, xcp, fv, Z, A, c, g, lb, ub, mats)
    stats["runs"] += 1
    free = np.flatnonzero((xc0 != lb) & (xc0 != ub))
    if not np.array_equal(np.asarray(fv), free):
        fails.append(("C09", "free set is not {i : lb_i != xcp_i != ub_i}"))
        return {"n": n}
    act = np.setdiff1d(np.arange(n), free)
    if not np.array_equal(xbar[act], xc0[act]):
        fails.append(("C09", "a variable on a bound at the Cauchy point moved"))
    if not (np.all(xbar >= lb - 0) and np.all(xbar <= ub + 0)):
        if np.max(np.maximum(lb - xbar, xbar - ub)) > 1e-12 * max(1.0, np.max(np.abs(xbar))):
            fails.append(("C09", "subspace point outside the box"))
    if len(free) == 0:
        return {"n": n}
    stats["nontrivial"] += 1
    r = (g + B @ (xc0 - x))[free]
    Bz = B[np.ix_(free, free)]
    dref = -np.linalg.solve(Bz, r)
    with np.errstate(divide="ignore", invalid="ignore"):
        steps = np.where(dref > 0, (ub - xc0)[free] / dref, np.where(dref < 0, (lb - xc0)[free] / dref, np.inf))
    a = min(1.0, float(np.min(steps)))
    ref = xc0.copy()
    ref[free] += a * dref
    tol = 1e-6 * max(1.0, float(np.max(np.abs(ref)))) * max(1.0, np.linalg.cond(Bz))
    if np.max(np.abs(xbar - ref)) > tol:
        fails.append(("C09", f"subspace point differs from the box-truncated Newton point by {np.max(np.abs(xbar - ref)):.2e}"))
    mod = lambda z: g @ (z - x) + 0.5 * (z - x) @ B @ (z - x)      # noqa: E731
    if mod(xbar) > mod(xc0) + 1e-9 * max(1.0, abs(mod(xc0))):
        fails.append(("C09", "subspace step increased the model value"))
    if g @ (xbar - x) >= 0 and mod(xc0) < 0:
        fails.append(("C09", "search direction is not a descent direction"))
    return {"n": n, "m": m, "free": len(free)}


def scenario_diag(rng, props, fails, stats):
    """C18: extract_hess_inv_diag == diagonal of the dense operator, for arbitrary positive-curvature pair sets
    (including pairs with tiny steps)."""
    from scipy.optimize import LbfgsInvHessProduct
    from lbfgsb.utils import extract_hess_inv_diag
    n, m = int(rng.integers(1, 31)), int(rng.integers(1, 13))
    A = rng.normal(size=(n, n))
    H = A @ A.T + np.eye(n)
    scale = 10 ** rng.uniform(-10, 1)
    sk = rng.normal(size=(m, n)) * scale
    if rng.random() < 0.3:
        sk[:, int(rng.integers(0, n))] *= 1e-9
    yk = sk @ H
    # structured pair sets: a gradient component that never changed (objective linear in that variable) and/or a
    # variable that never moved - kept only if every pair still has positive curvature
    r = rng.random()
    if n >= 2 and r < 0.35:
        yk2, sk2 = yk.copy(), sk.copy()
        j = int(rng.integers(0, n))
        if r < 0.2:
            yk2[:, j] = 0.0
        else:
            sk2[:, j] = 0.0
            yk2 = sk2 @ H
            if r < 0.28:
                yk2[:, int(rng.integers(0, n))] = 0.0
        if np.all(np.einsum("ij,ij->i", sk2, yk2) > 1e-12 * np.einsum("ij,ij->i", yk2, yk2)):
            sk, yk = sk2, yk2
    op = LbfgsInvHessProduct(sk, yk)
    stats["runs"] += 1
    stats["nontrivial"] += 1
    d = extract_hess_inv_diag(op)
    ref = np.diag(op.todense())
    if d.shape != ref.shape or np.max(np.abs(d - ref)) > 1e-9 * max(1.0, float(np.max(np.abs(ref)))):
        fails.append(("C18", f"extract_hess_inv_diag differs from the diagonal of the dense operator by "
                             f"{np.max(np.abs(d - ref)):.2e} (n={n}, pairs={m}, step scale {scale:.1e})"))
    return {"n": n, "pairs": m}


def scenario_bench(rng, props, fails, stats):
    """C19: exported gradients against an 8th-order central difference; shapes; purity (no hidden state)."""
    import lbfgsb.benchmarks as Bm
    names = ["ackley", "beale", "griewank", "quartic", "rastrigin", "rosenbrock", "sphere", "styblinski_tang"]
    name = names[int(rng.integers(0, len(names)))]
    f, g = getattr(Bm, name), getattr(Bm, name + "_grad")
    n = int(rng.integers(2 if name in ("beale", "rosenbrock") else 1, 13))
    x = rng.uniform(-5, 5, n)
    if name == "ackley":
        x[np.abs(x) < 0.3] += 0.5
    if name == "griewank" and rng.random() < 0.5:
        i = int(rng.integers(0, n))
        k = int(rng.integers(-1, 1))
        v = math.sqrt(i + 1) * (math.pi / 2 + k * math.pi)
        if abs(v) <= 5:
            x[i] = v                      # a zero of one cosine factor: the function is smooth there
    stats["runs"] += 1
    stats["nontrivial"] += 1
    c = np.array([-1 / 280, 4 / 105, -1 / 5, 4 / 5])
    h = 1e-2

    def fd(pt):
        out = np.zeros(pt.size)
        for i in range(pt.size):
            e = np.zeros(pt.size)
            e[i] = 1.0
            out[i] = sum(ck * (f(pt + (4 - k) * h * e) - f(pt - (4 - k) * h * e)) for k, ck in enumerate(c)) / h
        return out
    gr = g(x.copy())
    fv = f(x.copy())
    if np.shape(gr) != x.shape:
        fails.append(("C19", f"{name}_grad returns shape {np.shape(gr)} for x of shape {x.shape}"))
        return {"function": name, "n": n}
    if not np.isscalar(fv) and np.ndim(fv) != 0:
        fails.append(("C19", f"{name} does not return a scalar"))
    ref = fd(x.copy())
    tol = 1e-6 * max(1.0, float(np.max(np.abs(ref))))
    if np.max(np.abs(gr - ref)) > tol:
        fails.append(("C19", f"{name}_grad differs from an 8th-order finite difference by {np.max(np.abs(gr - ref)):.2e} "
                             f"at x={x.tolist()}"))
    # purity: same array object updated in place and evaluated again == evaluation on a fresh copy
    x2 = x.copy()
    f(x2)
    g(x2)
    x2 += 0.37
    if f(x2) != f(x2.copy()) or not np.array_equal(g(x2), g(x2.copy())):
        fails.append(("C19", f"{name}: the value depends on earlier calls (array updated in place between two calls)"))
    return {"function": name, "n": n}


def describe(p, kw):
    return {"problem": p.name, "n": p.n, "x0": [float(v) for v in p.x0], "lb": [float(v) for v in p.lb],
            "ub": [float(v) for v in p.ub],
            "options": {k: (v if isinstance(v, (int, float, str, type(None))) else type(v).__name__)
                        for k, v in kw.items() if k not in ("x0", "bounds", "fun") and not k.startswith("_")}}


SCENARIOS = {
    "basic": (scenario_basic, {"C02", "C03", "C04", "C05", "C18", "C14", "C07", "C16", "C20"}),
    "restart": (scenario_restart, {"C04", "C05", "C14", "C02", "C18"}),
    "cbstate": (scenario_callback_checkpoint, {"C07"}),
    "determinism": (scenario_determinism, {"C14"}),
    "scaler": (scenario_scaler, {"C17"}),
    "faults": (scenario_faults, {"C20"}),
    "linesearch": (scenario_linesearch, {"C11"}),
    "restart_equiv": (scenario_restart_equiv, {"C06", "C07"}),
    "update": (scenario_update_identity, {"C13"}),
    "fd": (scenario_fd, {"C16"}),
    "kkt": (scenario_kkt, {"C01"}),
    "scipy": (scenario_scipy, {"C12"}),
    "bfgs": (scenario_bfgs, {"C10"}),
    "cauchy": (scenario_cauchy, {"C08"}),
    "subspace": (scenario_subspace, {"C09"}),
    "diag": (scenario_diag, {"C18"}),
    "bench": (scenario_bench, {"C19"}),
}


def main():
    ap = argparse.ArgumentParser()
    ap.add_argument("--props", default="C04")
    ap.add_argument("--runs", type=int, default=100)
    ap.add_argument("--seed", type=int, default=0)
    a = ap.parse_args()
    props = set(a.props.split(","))
    names = [n for n, (_, ps) in SCENARIOS.items() if ps & props]
    out = {"props": sorted(props), "scenarios": names, "runs": 0, "nontrivial": 0, "failures": [], "samples": []}
    stats = {"runs": 0, "nontrivial": 0}
    np.seterr(all="ignore")
    import warnings
    warnings.simplefilter("ignore")
    for i in range(a.runs):
        name = names[i % len(names)]
        rng = np.random.default_rng([a.seed, i])
        fails = []
        try:
            desc = SCENARIOS[name][0](rng, props, fails, stats)
        except Exception as e:       # harness problems are reported, never counted as violations
            out.setdefault("harness_errors", []).append(f"{name}#{i}: {type(e).__name__}: {e} "
                                                        + traceback.format_exc()[-400:])
            continue
        if i < 3:
            out["samples"].append({"scenario": name, "case": desc})
        for pid, what in fails:
            if pid in props and len(out["failures"]) < 12:
                out["failures"].append({"property": pid, "scenario": name, "index": i, "seed": a.seed, "what": what,
                                        "case": desc})
    out.update(stats)
    print(json.dumps(out, default=str))


if __name__ == "__main__":
    main()
