"""Native (real code, /venv/bin/python) run-time check of the C15 clauses on ScalarFunction: exhaustive call
histories over {fun, grad, fun_and_grad} x a 3-point alphabet, with scaling-factor changes and caller-side
modification of the passed array.  Used as replay oracle for refuted SF obligations and as bounded stand-in.

usage: sf_replay.py <max_len> [mode ...]      prints one JSON document
"""
import itertools
import json
import sys

import numpy as np

import lbfgsb.scalar_function as sfm
from lbfgsb.scalar_function import prepare_scalar_function

PTS = [np.array([0.3, -1.2]), np.array([1.5, 0.25]), np.array([0.3, -1.2 + 2 ** -40])]
LB, UB = np.array([-2.0, -2.0]), np.array([2.0, 2.0])


class Counter:
    def __init__(self):
        self.f = self.g = self.fd = 0
        self.fpts = []

    def fun(self, x):
        self.f += 1
        self.fpts.append(x.copy())
        x2 = x.copy()
        x[:] = 99.0                       # a user that scribbles on its argument must not disturb the cache
        return np.sum(x2 ** 2) + np.sin(3 * x2[0]) * x2[1]

    def jac(self, x):
        self.g += 1
        x2 = x.copy()
        x[:] = 77.0
        return np.array([2 * x2[0] + 3 * np.cos(3 * x2[0]) * x2[1], 2 * x2[1] + np.sin(3 * x2[0])])


def fresh_value(mode, x):
    c = Counter()
    f = c.fun(x.copy())
    if mode == "callable":
        g = c.jac(x.copy())
    else:
        from scipy.optimize._numdiff import approx_derivative
        kw = dict(method="2-point" if mode is None else mode, bounds=(LB, UB), f0=f)
        if mode is None:
            kw["abs_step"] = 1e-8
        else:
            kw["rel_step"] = None
        g = approx_derivative(lambda z: Counter().fun(z.copy()), x.copy(), **kw)
    return f, g


def run_history(mode, hist):
    c = Counter()
    jac = c.jac if mode == "callable" else mode
    orig = sfm.approx_derivative

    def counted(*a, **k):
        c.fd += 1
        return orig(*a, **k)
    sfm.approx_derivative = counted
    try:
        sf = prepare_scalar_function(c.fun, PTS[0].copy(), jac=jac, bounds=(LB, UB), epsilon=1e-8)
        if c.f or c.g:
            return "init calls user function"
        scale = 1.0
        last_fun_pt = None
        for step, (meth, pi, sc) in enumerate(hist):
            if sc:
                scale = [1.0, 3.0, 0.125][sc]
                sf.scaling_factor = scale
            arg = PTS[pi].copy()
            f0, g0 = c.f, c.g
            n_direct_before = len(c.fpts)
            res = getattr(sf, meth)(arg)
            ef, eg = fresh_value(mode, PTS[pi])
            if meth == "fun":
                if res != ef * scale:
                    return f"step {step}: fun value {res!r} != fresh {ef * scale!r}"
            elif meth == "grad":
                if not np.array_equal(res, eg * scale):
                    return f"step {step}: grad value differs from a fresh evaluation"
            else:
                if res[0] != ef * scale or not np.array_equal(res[1], eg * scale):
                    return f"step {step}: fun_and_grad value differs from a fresh evaluation"
            if sf.nfev != c.f:
                return f"step {step}: nfev {sf.nfev} != user calls {c.f}"
            if sf.ngev != (c.g if mode == "callable" else c.fd):
                return f"step {step}: ngev {sf.ngev} != gradient computations"
            # not re-evaluated at the point it was last evaluated at (direct evaluation = at the requested point)
            direct = [p for p in c.fpts[n_direct_before:] if np.array_equal(p, PTS[pi])]
            if last_fun_pt is not None and np.array_equal(last_fun_pt, PTS[pi]) and meth == "fun" and direct:
                return f"step {step}: objective re-evaluated at the point it was last evaluated at"
            if len(direct) > 1:
                return f"step {step}: objective evaluated {len(direct)} times at the requested point"
            if meth in ("fun", "fun_and_grad") or (mode != "callable" and direct):
                last_fun_pt = PTS[pi].copy()
            elif mode != "callable" and meth == "grad":
                last_fun_pt = PTS[pi].copy()
            else:
                # grad() with a callable gradient moves the cache point without evaluating the objective
                if not np.array_equal(last_fun_pt if last_fun_pt is not None else np.array([np.nan]), PTS[pi]):
                    last_fun_pt = None
            arg[:] = -5.0                  # the caller modifies its array afterwards
            if isinstance(res, np.ndarray):
                res[:] = 123.0             # ... and the returned array
            elif isinstance(res, tuple):
                res[1][:] = 123.0
    finally:
        sfm.approx_derivative = orig
    return None


def main():
    max_len = int(sys.argv[1]) if len(sys.argv) > 1 else 3
    modes = sys.argv[2:] or ["callable", "2-point", "3-point", "cs", "None"]
    alphabet = [(m, p, 0) for m in ("fun", "grad", "fun_and_grad") for p in range(3)]
    alphabet += [("fun", 0, 1), ("grad", 1, 2), ("fun_and_grad", 0, 2)]
    n = 0
    fails = []
    for mode in modes:
        mode = None if mode == "None" else mode
        for L in range(1, max_len + 1):
            for hist in itertools.product(alphabet, repeat=L):
                n += 1
                r = run_history(mode, hist)
                if r is not None:
                    fails.append({"mode": mode, "history": [list(h) for h in hist], "what": r})
                    if len(fails) >= 3:
                        print(json.dumps({"histories": n, "failures": fails}))
                        return
    print(json.dumps({"histories": n, "failures": fails}))


if __name__ == "__main__":
    main()
