#!/usr/bin/env python
"""Pinned reproduction of known finding KF2 (C06 / C07): restart from a result produced after a REJECTED curvature
pair.  Exit 1 if the continuation after the restart differs from the uninterrupted run (the finding is present),
0 if it does not (the finding has been repaired), 2 if the scenario could not be set up."""
import copy
import sys

import numpy as np

from lbfgsb import minimize_lbfgsb


def wells(x):
    return float(np.sum(0.25 * x**4 - 0.5 * x**2 + 0.1 * x))


def wells_g(x):
    return x**3 - x + 0.1


# a non-convex objective in a box: steps through non-positive curvature (rejected pairs) happen in the first iterations
x0 = np.array([0.0, 0.0, 0.1, 0.3])
kw = dict(fun=wells, jac=wells_g, bounds=np.array([[0.0, 3.0]] * 4), maxcor=4, ftol=0.0, gtol=1e-12, maxfun=10000)


def main():
    its = {}
    full = minimize_lbfgsb(x0=x0.copy(), maxiter=12,
                           callback=lambda x, s: its.__setitem__(int(s.nit), (x.copy(), copy.deepcopy(s))) or False, **kw)
    # an iteration whose update was rejected: the number of pairs did not grow although the memory was not full
    rej, prev = None, 0
    for k in sorted(its):
        rows = int(np.atleast_2d(its[k][1].hess_inv.sk).shape[0]) if its[k][1].hess_inv.sk.size else 0
        if rows <= prev and rows < kw["maxcor"] and rows >= 1:
            rej = k
            break
        prev = rows
    if rej is None:
        print("no rejected pair in the reference run: scenario not reproduced")
        return 2
    worst = 0.0
    for k in range(rej, min(rej + 3, full.nit - 1)):
        a = minimize_lbfgsb(x0=x0.copy(), maxiter=k, **kw)
        b = minimize_lbfgsb(x0=a.x.copy(), checkpoint=a, maxiter=k + 2, **kw)
        if (k + 2) in its and b.nit == k + 2:
            ref = its[k + 2][0]
            worst = max(worst, float(np.max(np.abs(b.x - ref)) / max(1.0, np.max(np.abs(ref)))))
    print(f"rejected pair at iteration {rej}; largest relative difference after a restart: {worst:.3e}")
    return 1 if worst > 1e-7 else 0


if __name__ == "__main__":
    sys.exit(main())
