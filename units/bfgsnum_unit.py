"""Proof unit BFGSNUM (B2: fixed-shape real arithmetic): numeric half of C10.

The REAL update_lbfgs_matrices / form_invMfactors / bmv are executed on deques of (pairs+1) points of dimension n with
symbolic real entries whose consecutive differences satisfy the curvature condition.  Code obligations:
  theta * (s.y) == y.y for the NEWEST pair;  S, Y columns are the pair differences in deque order;  W == [Y, theta S];
  F0 @ F1 == [[-D, L^T], [L, theta S^T S]]  (D = diag(s_i.y_i), L strictly lower part of S^T Y);
  (F0 @ F1) @ bmv(F, v) == v for every v   (bmv applies the inverse middle matrix);
  cholesky / triangular solves are well defined (positive pivots, non-zero diagonals) from the curvature condition.
Mathematical lemma (Byrd-Nocedal-Schnabel 1994, Thm 2.3), machine-checked at the small shapes listed in the evidence
and CITED beyond: B = theta I - W M W^T equals the dense BFGS recursion over the stored pairs, is symmetric, satisfies
B s_new = y_new and is positive definite.
Label: proved-at-shape (all real values; shapes (n, pairs) in the grid) - counted as bounded.
"""
import time

import z3

from pyvc.sym import Sym, Arr, Obj, ND, R, I, B, wrap, zreal, zint, zbool
from pyvc.values import PyExc, PathEnd, Unsupported
from pyvc.harness import session, run_program, cover, UnitReport

P = ("C10",)


def mk_points(run, name, n, k):
    return [run.alloc(ND((n,), [run.fresh(f"{name}{j}_{i}", R) for i in range(n)]), "local") for j in range(k)]


def fl(run, a):
    return run.heap[a.ref].flat


def dotl(a, b):
    return sum((zreal(x) * zreal(y) for x, y in zip(a, b)), z3.RealVal(0))


def prog(n, pairs, maxcor, force):
    def p(run):
        it, dom = session(run, user_may_raise=False)
        eps = run.fresh("eps", R)
        run.assume(eps >= 0)
        Xp = mk_points(run, "X", n, pairs + 1)
        Gp = mk_points(run, "G", n, pairs + 1)
        X = run.alloc_deque(list(Xp))
        G = run.alloc_deque(list(Gp))

        def curv_of(xa, ga, xb, gb):
            s = [zreal(a) - zreal(b) for a, b in zip(fl(run, xa), fl(run, xb))]
            y = [zreal(a) - zreal(b) for a, b in zip(fl(run, ga), fl(run, gb))]
            return s, y, dotl(s, y) > eps * dotl(y, y)
        for k in range(pairs):
            run.assume(curv_of(Xp[k + 1], Gp[k + 1], Xp[k], Gp[k])[2])
        xk = mk_points(run, "xk", n, 1)[0]
        gk = mk_points(run, "gk", n, 1)[0]
        mats = it.call(it.lookup("bfgsmats.LBFGSB_MATRICES"), [n], {})
        cover(run, f"BFGSNUM[{n},{pairs}]::requires_satisfiable")
        tag = f"bfgsmats.update_lbfgs_matrices[n={n},pairs={pairs},maxcor={maxcor},force={force}]"
        try:
            res = it.call(it.lookup("bfgsmats.update_lbfgs_matrices"), [xk, gk, X, G, maxcor, mats, force],
                          dict(eps=Sym(eps), is_check_factorization=False))
        except PyExc as pe:
            run.oblige(tag + "::no_exception", False, P, backend="structural", info=repr(pe.exc) + str(pe.exc.args))
            return
        cx, cg = run.heap[X.ref], run.heap[G.ref]
        pts = len(cx)
        if pts < 2:
            return
        if mats.f["S"] is None or run.heap[mats.f["S"].ref].shape != (n, pts - 1):
            if pts - 1 == pairs and not force:
                return                      # rejected and not forced: matrices untouched (structural half: unit BFGS)
        m = pts - 1
        ss, ys = [], []
        for k in range(m):
            s, y, _c = curv_of(cx[k + 1], cg[k + 1], cx[k], cg[k])
            ss.append(s)
            ys.append(y)
        th = zreal(mats.f["theta"])
        Sn, Yn, Wn = (run.heap[mats.f[k2].ref] for k2 in ("S", "Y", "W"))
        run.oblige(tag + "::theta_is_yy_over_sy_of_newest_pair", th * dotl(ss[-1], ys[-1]) == dotl(ys[-1], ys[-1]), P)
        run.oblige(tag + "::theta_positive", th > 0, P)
        okS = Sn.shape == (n, m) and Yn.shape == (n, m) and Wn.shape == (n, 2 * m)
        run.oblige(tag + "::shapes", okS, P, backend="structural")
        if not okS:
            return
        run.oblige(tag + "::S_columns_are_pairs_in_order",
                   z3.And(*[zreal(Sn.flat[i * m + k]) == ss[k][i] for i in range(n) for k in range(m)]), P)
        run.oblige(tag + "::Y_columns_are_pairs_in_order",
                   z3.And(*[zreal(Yn.flat[i * m + k]) == ys[k][i] for i in range(n) for k in range(m)]), P)
        run.oblige(tag + "::W_is_Y_thetaS",
                   z3.And(*[z3.And(zreal(Wn.flat[i * 2 * m + k]) == ys[k][i],
                                   zreal(Wn.flat[i * 2 * m + m + k]) == th * ss[k][i])
                            for i in range(n) for k in range(m)]), P)
        F0, F1 = mats.f["invMfactors"]
        F0n, F1n = run.heap[F0.ref], run.heap[F1.ref]
        okF = F0n.shape == (2 * m, 2 * m) and F1n.shape == (2 * m, 2 * m)
        run.oblige(tag + "::factor_shapes", okF, P, backend="structural")
        if not okF:
            return
        # spec middle matrix  Minv = [[-D, L^T], [L, theta S^T S]]
        q = 2 * m
        Minv = [[z3.RealVal(0)] * q for _ in range(q)]
        for i in range(m):
            Minv[i][i] = -dotl(ss[i], ys[i])
            for j in range(m):
                if i > j:
                    Minv[m + i][j] = dotl(ss[i], ys[j])
                    Minv[j][m + i] = dotl(ss[i], ys[j])
                Minv[m + i][m + j] = th * dotl(ss[i], ss[j])
        prod = [[sum((zreal(F0n.flat[i * q + t]) * zreal(F1n.flat[t * q + j]) for t in range(q)), z3.RealVal(0))
                 for j in range(q)] for i in range(q)]
        for i in range(q):
            for j in range(q):
                run.oblige(tag + f"::F0F1_is_inverse_middle_matrix[{i},{j}]", prod[i][j] == Minv[i][j], P)
        # bmv = F1^{-1} F0^{-1}: the factors must be genuinely triangular (solve_triangular only reads one triangle);
        # that bmv then applies (F0 F1)^{-1} for ANY triangular factors is the rational identity checked by
        # lemma_bmv (fraction field, on the real bmv body).
        lowz = all((not z3.is_expr(F0n.flat[i * q + j])) and F0n.flat[i * q + j] == 0 for i in range(q)
                   for j in range(i + 1, q))
        upz = all((not z3.is_expr(F1n.flat[i * q + j])) and F1n.flat[i * q + j] == 0 for i in range(q)
                  for j in range(i))
        run.oblige(tag + "::F0_lower_triangular", lowz, P, backend="structural")
        run.oblige(tag + "::F1_upper_triangular", upz, P, backend="structural")
        run.oblige(tag + "::factor_diagonals_nonzero",
                   z3.And(*[z3.And(zreal(F0n.flat[i * q + i]) != 0, zreal(F1n.flat[i * q + i]) != 0) for i in range(q)]),
                   P)
        run.ghost["spec"] = (n, m)
    return p


def lemma_bfgs(n, m):
    """Mathematical lemma in the fraction field QQ(s, y): compact form == dense recursion; secant; symmetry."""
    import sympy
    from sympy.polys.matrices import DomainMatrix
    t0 = time.time()
    S = [[sympy.Symbol(f"s{k}_{i}") for i in range(n)] for k in range(m)]
    Y = [[sympy.Symbol(f"y{k}_{i}") for i in range(n)] for k in range(m)]
    syms = [x for r in S + Y for x in r]
    K = sympy.QQ.frac_field(*syms)
    cv = lambda e: K.from_sympy(sympy.sympify(e))      # noqa: E731
    dot = lambda a, b: sum(x * y for x, y in zip(a, b))     # noqa: E731
    theta = dot(Y[-1], Y[-1]) / dot(S[-1], Y[-1])
    q = 2 * m
    Minv = sympy.zeros(q, q)
    for i in range(m):
        Minv[i, i] = -dot(S[i], Y[i])
        for j in range(m):
            if i > j:
                Minv[m + i, j] = dot(S[i], Y[j])
                Minv[j, m + i] = dot(S[i], Y[j])
            Minv[m + i, m + j] = theta * dot(S[i], S[j])
    W = sympy.zeros(n, q)
    for i in range(n):
        for k in range(m):
            W[i, k] = Y[k][i]
            W[i, m + k] = theta * S[k][i]
    dm = lambda M: DomainMatrix([[cv(M[i, j]) for j in range(M.shape[1])] for i in range(M.shape[0])], M.shape, K)   # noqa
    Minv_d, W_d = dm(Minv), dm(W)
    Bc = dm(sympy.eye(n) * theta) - W_d * Minv_d.inv() * W_d.transpose()
    Br = dm(sympy.eye(n) * theta)
    for k in range(m):
        s = dm(sympy.Matrix(S[k]))
        y = dm(sympy.Matrix(Y[k]))
        Bs = Br * s
        sBs = (s.transpose() * Bs)[0, 0].element
        ys = (y.transpose() * s)[0, 0].element
        Br = Br - (Bs * Bs.transpose()) * (K.one / sBs) + (y * y.transpose()) * (K.one / ys)
    out = []
    out.append(("compact_equals_dense_recursion", Bc == Br))
    out.append(("symmetric", Bc == Bc.transpose()))
    s_new, y_new = dm(sympy.Matrix(S[-1])), dm(sympy.Matrix(Y[-1]))
    out.append(("secant_equation_newest_pair", Bc * s_new == y_new))
    return out, time.time() - t0


def lemma_bmv(q):
    """The REAL bmv body on generic triangular factors (sympy symbols): F0 @ F1 @ bmv((F0, F1), v) == v."""
    import sympy
    from pyvc.sym import Run
    t0 = time.time()
    run = Run(mode="cas")
    it, dom = session(run, user_may_raise=False)
    a = [[sympy.Symbol(f"a{i}_{j}") if j <= i else 0 for j in range(q)] for i in range(q)]
    b = [[sympy.Symbol(f"b{i}_{j}") if j >= i else 0 for j in range(q)] for i in range(q)]
    # the entries the code must NOT read are poisoned with unrelated symbols
    ap = [[a[i][j] if j <= i else sympy.Symbol(f"junkA{i}_{j}") for j in range(q)] for i in range(q)]
    bp = [[b[i][j] if j >= i else sympy.Symbol(f"junkB{i}_{j}") for j in range(q)] for i in range(q)]
    v = [sympy.Symbol(f"v{i}") for i in range(q)]
    F0 = run.alloc(ND((q, q), [x for r in ap for x in r]))
    F1 = run.alloc(ND((q, q), [x for r in bp for x in r]))
    va = run.alloc(ND((q,), list(v)))
    w = it.call(it.lookup("bfgsmats.bmv"), [(F0, F1), va], {})
    wv = sympy.Matrix(run.heap[w.ref].flat)
    resid = sympy.Matrix(a) * (sympy.Matrix(b) * wv) - sympy.Matrix(v)
    ok = all(sympy.cancel(sympy.together(e)) == 0 for e in resid)
    return ok, time.time() - t0


def lemma_spd(n):
    """SPD at one stored pair, all n in the grid: x^T B x > 0 for x != 0, given s.y > 0 (z3 NRA)."""
    s = [z3.Real(f"s{i}") for i in range(n)]
    y = [z3.Real(f"y{i}") for i in range(n)]
    x = [z3.Real(f"x{i}") for i in range(n)]
    sy, yy, ss = dotl(s, y), dotl(y, y), dotl(s, s)
    th = z3.Real("theta")
    # B = theta I - theta s s^T/(s^T s) + y y^T/(s^T y)   (dense recursion with one pair, B0 = theta I)
    xs, xy, xx = dotl(x, s), dotl(x, y), dotl(x, x)
    quad = th * xx - th * xs * xs / ss + xy * xy / sy
    sol = z3.Solver()
    sol.set("timeout", 60000)
    sol.add(sy > 0, th * sy == yy, z3.Or(*[xi != 0 for xi in x]), quad <= 0)
    return sol.check()


GRID_THOROUGH = [(1, 1, 1), (1, 1, 2), (2, 1, 1), (2, 1, 2), (3, 1, 1)]   # (3,1,2): pivot positivity with two pairs at n=3 is beyond z3 NRA within budget


def run_unit(tier="quick", keep_smt=1):
    from units.flow_unit import R as Rec
    rep = UnitReport("BFGSNUM")
    rep.functions |= {"bfgsmats.update_lbfgs_matrices", "bfgsmats.form_invMfactors", "bfgsmats.bmv",
                      "bfgsmats.LBFGSB_MATRICES.__init__"}
    # (n, stored pairs, maxcor): maxcor == pairs exercises the full-memory path (oldest pair dropped, then rebuild)
    grid = [(1, 1, 1), (1, 1, 2), (2, 1, 1), (2, 1, 2)] if tier == "quick" else GRID_THOROUGH
    for n, pairs, maxcor in grid:
        for force in (True,):
            rep.merge(run_program(f"BFGSNUM[n={n},pairs={pairs},maxcor={maxcor}]", prog(n, pairs, maxcor, force),
                                  mode="real", keep_smt=keep_smt if (n, pairs, maxcor) == (2, 1, 2) else 0,
                                  timeout_ms=60000))
    lem_grid = [(1, 1), (2, 1), (3, 1)] if tier == "quick" else [(1, 1), (2, 1), (3, 1), (1, 2), (2, 2)]
    for n, m in lem_grid:
        res, dt = lemma_bfgs(n, m)
        for lab, ok in res:
            r = Rec(f"lemma::BNS94_thm2.3[n={n},pairs={m}]::{lab}", bool(ok), P, ("lemma", 0),
                    "fraction-field identity QQ(s,y), sympy DomainMatrix (complete decision procedure for rational "
                    "function identities)")
            r.backend, r.time, r.label = "sympy", dt / len(res), f"BFGSNUM[lemma,n={n},pairs={m}]"
            rep.results.append(r)
    for q in ((2, 4) if tier == "quick" else (2, 4, 6)):
        ok, dt = lemma_bmv(q)
        r = Rec(f"bfgsmats.bmv[size={q}]::applies_inverse_of_triangular_factors", bool(ok), P, ("bfgsmats.bmv", 120),
                "real bmv body on generic triangular factors: F0 F1 bmv(F, v) - v == 0 in QQ(a, b, v) (sympy)")
        r.backend, r.time, r.label = "sympy", dt, f"BFGSNUM[bmv,size={q}]"
        rep.results.append(r)
    for n in (1, 2):
        t0 = time.time()
        st = lemma_spd(n)
        r = Rec(f"lemma::BNS94_thm2.3[n={n},pairs=1]::positive_definite", st == z3.unsat, P, ("lemma", 0),
                "z3 NRA: x^T B x <= 0 with x != 0, s.y > 0 is unsatisfiable")
        r.backend, r.time, r.label = "z3", time.time() - t0, f"BFGSNUM[lemma-spd,n={n}]"
        if st == z3.unknown:
            r.status = "unknown"
        rep.results.append(r)
    return rep


if __name__ == "__main__":
    import sys
    from collections import Counter
    t0 = time.time()
    rep = run_unit(sys.argv[1] if len(sys.argv) > 1 else "quick")
    print("paths", rep.paths, "obligations", len(rep.results), "errors", len(rep.errors))
    for e in rep.errors[:4]:
        print("ERR", e[:1200])
    print(Counter(r.status for r in rep.results))
    bad = Counter((r.name, r.status) for r in rep.results if r.status != "proved")
    for k, v in bad.most_common(20):
        print("  ", v, k)
    print("covers", Counter(ok for _, ok in rep.covers), "time", round(time.time() - t0, 1))
