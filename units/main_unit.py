"""Proof unit MAIN: lbfgsb.main.minimize_lbfgsb under contract (B1, UF domain).

One exploration per configuration (checkpoint / ftarget kind / gtol kind / gradient mode / scaler / update function /
callback).  loop#1 is cut by the invariant INV below, so every obligation holds for every number of iterations;
the early returns and the final classification are exits like any other and must satisfy the same `ensures`.
Each obligation carries the ids of the properties it constitutes.
"""
import itertools
import multiprocessing as mp
import os
import time

import z3

from pyvc.sym import (Sym, Arr, Obj, DequeV, SymDeque, UserFn, MatTerm, Vec, R, I, B, uf, wrap, zreal, zint, zbool)
from pyvc.values import PyExc, PathEnd, Unsupported
from pyvc.harness import session, run_program, cover, UnitReport, Result
from pyvc.loops import Cut
from pyvc.lib import all_le, inbox, vec_of
from contracts.common import F, Gr, Fs, Vs, count, fresh_vec, fmul, vscale
from contracts.scalar_function import sf_inv, sf_havoc, install_sf_method_contracts
from contracts import main as M
from contracts.main import (Cfg, MSG, DOCUMENTED, CKPT_MSG, Poison, curv, projgr_spec, dq_len, dq_pairs_forall,
                            dq_snapshot, snap_equal, make_params, install_callee_contracts)

LOOP_STATES = [(False, "START"), (False, "RESTART_FROM_LNSRCH"), (True, MSG["CALLBACK"])]


# ------------------------------------------------------------------------------------------------ invariant
def main_inv(it, env, phase):
    run = it.dom.run
    ctx = run.ghost["ctx"]
    cfg = ctx.cfg
    out = []

    def add(label, f, props):
        out.append((label, f, props))
    g = lambda k: env.get(k)          # noqa: E731
    x, grad, f0, X, G, sf, istate, mats = g("x"), g("grad"), g("f0"), g("X"), g("G"), g("sf"), g("istate"), g("mats")
    shape_ok = (isinstance(x, Arr) and z3.is_expr(run.heap.get(x.ref)) and isinstance(grad, Arr)
                and z3.is_expr(run.heap.get(grad.ref)) and isinstance(f0, (Sym, float, int))
                and isinstance(X, DequeV) and isinstance(G, DequeV) and isinstance(sf, Obj)
                and isinstance(istate, Obj) and isinstance(mats, Obj))
    add("shape", shape_ok, ("SAFE",))
    if not shape_ok:
        return out
    xv, gv = run.heap[x.ref], run.heap[grad.ref]
    lbv, ubv = vec_of(it.dom, g("lb")), vec_of(it.dom, g("ub"))
    s = sf.f["scaling_factor"]
    nit = zint(istate.f["nit"]) if "nit" in istate.f else z3.IntVal(0)
    maxiter, maxfun, maxcor = ctx.ints["maxiter"], ctx.ints["maxfun"], ctx.ints["maxcor"]
    # --- C04
    add("nit_bound", z3.And(nit >= ctx.nit0, nit <= z3.If(maxiter >= ctx.nit0, maxiter, ctx.nit0)), ("C04",))
    if cfg.jac == "callable":
        add("nfev_bound", zint(sf.f["nfev"]) <= z3.If(maxfun >= ctx.n0, maxfun, ctx.n0) + 1, ("C04",))
    succ = istate.f.get("is_success", False)
    task = istate.f.get("task_str", "START")
    add("state_msg", (succ, task) in LOOP_STATES and istate.f.get("warnflag", 2) == 2, ("C04",))
    if succ is True:
        cbr = run.ghost.get("cb_returns", [])
        add("callback_returned_true", cbr[-1] if cbr else False, ("C04",))
    for nm, expected in (("ftarget", 1 if cfg.ftarget == "callable" else 0),
                         ("gtol", 1 if cfg.gtol == "callable" else 0),
                         ("gradient_scaler", 1 if cfg.scaler else 0)):
        add(f"calls_once[{nm}]", count(run, nm) == expected, ("C04", "C17") if nm == "gradient_scaler" else ("C04",))
    # --- C05 / C15: the wrapper's invariant and the coherence of (x, f0, grad)
    for lab, f in sf_inv(run, sf, ctx.sfcfg, ctx.base_f, ctx.base_g):
        add("sf::" + lab, f, ("C05", "C15") if "counts" in lab else ("C05",))
    if not cfg.update and (not cfg.ckpt or ctx.wf_ckpt):
        add("f0_of_x", zreal(f0) == Fs(xv, s), ("C05", "C03", "C17"))
        add("grad_of_x", gv == Vs(ctx.sfcfg.gnum(xv), s), ("C05", "C17"))
    add("scale_fixed", zreal(s) == zreal(ctx.s) if ctx.s is not None else s == 1.0, ("C17", "C05"))
    # --- C02 / C16
    add("inbox_x", z3.And(inbox(xv, lbv, ubv), all_le(lbv, ubv)), ("C02", "C16"))
    add("bounds_are_callers", z3.And(lbv == ctx.lbv, ubv == ctx.ubv), ("C02", "C16", "C14"))
    # --- C03
    if not cfg.update and ctx.f_first is not None and (not cfg.ckpt or ctx.wf_ckpt):
        add("mono", zreal(f0) <= ctx.f_first, ("C03",))
    # --- C10 / C18 / C13: the history deques
    nX = dq_len(run, X)
    add("XG_len", z3.And(nX >= 1, nX == dq_len(run, G), nX <= maxcor + 1), ("C10", "C18", "C13"))
    eps = ctx.reals["eps_SY"]
    add("XG_curvature", dq_pairs_forall(run, X, G, lambda a, c, d, e: curv(a, c, d, e, eps)), ("C10", "C18", "C13"))
    if not cfg.update and not cfg.ckpt:
        add("XG_genuine", dq_pairs_forall(run, X, G, lambda a, c, d, e: z3.BoolVal(True),
                                          lambda xx, gg: gg == Vs(ctx.sfcfg.gnum(xx), s)), ("C18",))
    # --- C06 / C13: the matrices used by the solver are the ones built from the stored history
    if getattr(ctx, "track_mats", False):
        add("mats_current", mats_current(it, run, mats, X, G), ("C06", "C13", "C10"))
    # --- C07 / C14 ownership of the live iterate
    # the live iterate is updated in place by the loop: it must not be an array the caller can see (its own input,
    # or an array handed to the callback as part of a state), nor one stored in the history
    esc = run.ghost.get("escaped_to", {}).get(x.ref, set())
    add("x_local", run.region.get(x.ref) in ("local", "escaped") and "callback" not in esc
        and x.ref not in run.frozen, ("C07", "C14", "C18"))
    return out


def transposed_diff(run, dq):
    """value of np.diff(np.array(dq), axis=0).T as a z3 term"""
    from pyvc.lib import mat_term
    return mat_term(it_dom(run), MatTerm("T", MatTerm("diffstack", dq_snapshot(run, dq))))


class _D:
    pass


def it_dom(run):
    d = _D()
    d.run = run
    d.uf_real = None
    return d


def is_initial_mats(run, mats):
    init = run.ghost.get("init_mats", {}).get(mats.ref)
    return init is not None and all(mats.f.get(k) is v for k, v in init.items())


def mats_current(it, run, mats, X, G):
    """either the initial (identity) matrices with a single stored point, or S, Y are the transposed row differences
    of the CURRENT deques (every other field is a function of S, Y: unit BFGS, every_field_rebuilt)"""
    if is_initial_mats(run, mats):
        return z3.And(dq_len(run, X) == 1, dq_len(run, G) == 1)
    S, Y = mats.f.get("S"), mats.f.get("Y")
    if not (isinstance(S, Arr) and isinstance(Y, Arr)):
        return z3.BoolVal(False)
    for arr, dq in ((S, X), (Y, G)):
        c = run.heap.get(arr.ref)
        if isinstance(c, MatTerm) and c.kind == "T" and isinstance(c.args[0], MatTerm) and c.args[0].kind == "diffstack" \
                and snap_equal(c.args[0].args[0], dq_snapshot(run, dq)):
            continue
        break
    else:
        return z3.And(dq_len(run, X) >= 2)
    return z3.And(vec_of(it.dom, S) == transposed_diff(run, X), vec_of(it.dom, Y) == transposed_diff(run, G),
                  dq_len(run, X) >= 2)


def main_havoc(it, env):
    """Generic loop-head state: every loop-modified local / heap cell fresh."""
    run = it.dom.run
    ctx = run.ghost["ctx"]
    cfg = ctx.cfg
    names = []

    def setv(k, v):
        env.set(k, v)
        names.append(k)
    setv("x", fresh_vec(run, "x_k", "local", "live iterate x"))
    setv("grad", fresh_vec(run, "grad_k", "local", "grad"))
    setv("f0", Sym(run.fresh("f0_k", R)))
    setv("f0_old", Sym(run.fresh("f0_old", R)))
    maxcor = ctx.ints["maxcor"]
    lo = run.fresh("dq_lo", I)
    n = run.fresh("dq_len", I)
    X = run.alloc_deque(SymDeque(run.fresh("X_a", z3.ArraySort(I, Vec)), lo, lo + n))
    G = run.alloc_deque(SymDeque(run.fresh("G_a", z3.ArraySort(I, Vec)), lo, lo + n))
    run.tags[X.ref], run.tags[G.ref] = "X", "G"
    setv("X", X)
    setv("G", G)
    mats = env.get("mats")
    if getattr(ctx, "track_mats", False) and run.choose("mats_state", 2) == 0:
        # the initial (identity) matrices, as created by the real constructor
        newm = it.call(it.lookup("bfgsmats.LBFGSB_MATRICES"), [env.get("n")], {})
    else:
        newm = Obj(mats.cls, run.new_ref())
        for k in ("S", "Y", "D", "L", "W"):
            newm.f[k] = fresh_vec(run, "mats_" + k, "local")
        newm.f["invMfactors"] = (fresh_vec(run, "mats_F0", "local"), fresh_vec(run, "mats_F1", "local"))
        newm.f["theta"] = Sym(run.fresh("theta", R))
    setv("mats", newm)
    sf = env.get("sf")
    sf_havoc(run, sf, ctx.sfcfg)
    sf.f["scaling_factor"] = Sym(ctx.s) if ctx.s is not None else 1.0
    ist = env.get("istate")
    ist.f["nit"] = Sym(run.fresh("nit", I))
    k = run.choose("loop_state", len(LOOP_STATES))
    ist.f["is_success"], ist.f["task_str"] = LOOP_STATES[k]
    ist.f["warnflag"] = 2
    run.ghost["cb_returns"] = [z3.BoolVal(True)] if ist.f["is_success"] else []
    for nm in ("callback", "update_fun_def"):
        run.ghost["calls"][nm] = Sym(run.fresh("calls_" + nm, I))
    setv("free_vars", fresh_vec(run, "free_vars", "local"))
    setv("has_displayed_results", Sym(run.fresh("has_disp", B)))
    for dead in ("x_cp", "c", "Z", "A", "xbar", "d", "steplength"):
        setv(dead, Poison(dead))
    run.ghost["f_head"] = zreal(env.get("f0"))
    run.ghost["user_excs"] = []
    run.ghost["in_loop"] = True
    return names


# ------------------------------------------------------------------------------------------------ site clauses
def hess_inv_clauses(run, ctx, hi, X, G, where, add):
    """C18/C13/C10: the operator is built from diff(X), diff(G) of the *current* deques, at most maxcor rows,
    every pair with positive curvature."""
    sk, yk = hi.f.get("sk"), hi.f.get("yk")
    cs = run.heap.get(sk.ref) if isinstance(sk, Arr) else None
    cy = run.heap.get(yk.ref) if isinstance(yk, Arr) else None
    ok_s = isinstance(cs, MatTerm) and cs.kind == "diffstack" and snap_equal(cs.args[0], dq_snapshot(run, X))
    ok_y = isinstance(cy, MatTerm) and cy.kind == "diffstack" and snap_equal(cy.args[0], dq_snapshot(run, G))
    add(f"{where}::hess_inv::sk_is_diff_of_X", ok_s, ("C18", "C13", "C07"), "structural")
    add(f"{where}::hess_inv::yk_is_diff_of_G", ok_y, ("C18", "C13", "C07"), "structural")
    n = dq_len(run, X)
    add(f"{where}::hess_inv::rows_le_maxcor", z3.And(n - 1 <= ctx.ints["maxcor"], n == dq_len(run, G)),
        ("C18", "C10"), "z3")
    pos = dq_pairs_forall(run, X, G, lambda a, c, d, e: M.dot(M.vsub(a, d), M.vsub(c, e)) > 0)
    add(f"{where}::hess_inv::positive_curvature", pos, ("C18",), "z3")


def state_clauses(run, ctx, env, res, where, at_callback):
    """Clauses on a result / callback state, from C02 C03 C05 C07 C18."""
    cfg = ctx.cfg
    obl = []

    def add(name, f, props, backend="z3"):
        run.oblige("main.minimize_lbfgsb::" + name, f, props, backend=backend)
    x, grad, f0, sf, ist = env.get("x"), env.get("grad"), env.get("f0"), env.get("sf"), env.get("istate")
    X, G = env.get("X"), env.get("G")
    s = sf.f["scaling_factor"]
    rx, rj = res.f.get("x"), res.f.get("jac")
    lbv, ubv = ctx.lbv, ctx.ubv
    if not (isinstance(rx, Arr) and z3.is_expr(run.heap.get(rx.ref))):
        add(f"{where}::x_is_array", False, ("C05", "C02"), "structural")
        return
    rxv = run.heap[rx.ref]
    add(f"{where}::inbox", inbox(rxv, lbv, ubv), ("C02",))
    grad_computed = count(run, "jac") + zint(run.ghost.get("fd_calls", 0)) + ctx.base_g >= 1
    coherent = not cfg.update and (not cfg.ckpt or ctx.wf_ckpt)
    if coherent:
        add(f"{where}::fun_belongs_to_x", z3.Implies(grad_computed, zreal(res.f["fun"]) == Fs(rxv, s)),
            ("C05", "C17"))
        if isinstance(rj, Arr) and z3.is_expr(run.heap.get(rj.ref)):
            add(f"{where}::jac_belongs_to_x",
                z3.Implies(grad_computed, run.heap[rj.ref] == Vs(ctx.sfcfg.gnum(rxv), s)), ("C05", "C17"))
        else:
            add(f"{where}::jac_belongs_to_x", False, ("C05",), "structural")
    add(f"{where}::nfev_counts_calls", zint(res.f["nfev"]) == ctx.base_f + count(run, "fun"), ("C05", "C16"))
    ngrad = count(run, "jac") if cfg.jac == "callable" else zint(run.ghost.get("fd_calls", 0))
    add(f"{where}::njev_counts_calls", zint(res.f["njev"]) == ctx.base_g + ngrad, ("C05",))
    if coherent and ctx.f_first is not None:
        add(f"{where}::fun_not_above_start", z3.Implies(grad_computed, zreal(res.f["fun"]) <= ctx.f_first), ("C03",))
        if "f_head" in run.ghost:
            add(f"{where}::fun_not_above_previous", zreal(res.f["fun"]) <= run.ghost["f_head"], ("C03",))
    hi = res.f.get("hess_inv")
    if isinstance(hi, Obj):
        hess_inv_clauses(run, ctx, hi, X, G, where, add)
    else:
        add(f"{where}::hess_inv::present", False, ("C18",), "structural")
    if at_callback:
        # C07: the state is what a run with maxiter = (iterations completed so far) returns
        add(f"{where}::state_is_current[x]", rxv == run.heap[x.ref], ("C07",))
        add(f"{where}::state_is_current[fun]", zreal(res.f["fun"]) == zreal(f0), ("C07",))
        add(f"{where}::state_is_current[jac]", run.heap[rj.ref] == run.heap[grad.ref]
            if isinstance(rj, Arr) else False, ("C07",))
        add(f"{where}::state_is_current[nfev,njev]",
            z3.And(zint(res.f["nfev"]) == zint(sf.f["nfev"]), zint(res.f["njev"]) == zint(sf.f["ngev"])), ("C07",))
        add(f"{where}::state_nit_counts_completed_iterations", zint(res.f["nit"]) == zint(ist.f["nit"]) + 1,
            ("C07",))
        add(f"{where}::state_x_is_snapshot", rx.ref != x.ref, ("C07",), "frame")
        a0 = run.ghost.get("cb_arg0")
        if isinstance(a0, Arr):
            add(f"{where}::callback_xk_is_current", run.heap[a0.ref] == run.heap[x.ref], ("C07", "C02"))
            add(f"{where}::callback_xk_is_copy", a0.ref != x.ref, ("C07",), "frame")


def exit_clauses(run, ctx, env, res, where):
    """C04: truthful termination report and budgets (from the statement)."""
    cfg = ctx.cfg

    def add(name, f, props, backend="z3"):
        run.oblige("main.minimize_lbfgsb::" + name, f, props, backend=backend)
    msg = res.f.get("message")
    add(f"{where}::msg_documented", isinstance(msg, str) and msg in DOCUMENTED, ("C04",), "structural")
    succ = res.f.get("success")
    nit, nfev = zint(res.f["nit"]), zint(res.f["nfev"])
    maxiter, maxfun = ctx.ints["maxiter"], ctx.ints["maxfun"]
    if isinstance(msg, str) and msg in DOCUMENTED:
        if isinstance(succ, bool):
            add(f"{where}::success_false_iff_abnormal", (succ is False) == (msg == MSG["ABNORMAL"]), ("C04",),
                "structural")
        else:
            add(f"{where}::success_false_iff_abnormal", False, ("C04",), "structural")
        rx, rj = res.f.get("x"), res.f.get("jac")
        if msg == MSG["PG"]:
            gt = ctx.gtol1
            add(f"{where}::msg_truthful[projected_gradient]",
                projgr_spec(run.heap[rx.ref], run.heap[rj.ref], ctx.lbv, ctx.ubv) <= zreal(gt)
                if gt is not None else False, ("C04",))
        elif msg == MSG["TARGET"]:
            ft = ctx.ftarget1
            sfac = env.get("sf").f["scaling_factor"]
            unscaled = zreal(res.f["fun"]) if (isinstance(sfac, float) and sfac == 1.0) \
                else uf("fdiv", R, R, R)(zreal(res.f["fun"]), zreal(sfac))
            add(f"{where}::msg_truthful[target]", unscaled <= zreal(ft) if ft is not None else False, ("C04", "C17"))
        elif msg == MSG["ITER"]:
            add(f"{where}::msg_truthful[iteration_limit]", nit >= maxiter, ("C04",))
        elif msg == MSG["EVAL"]:
            add(f"{where}::msg_truthful[evaluation_limit]", nfev >= maxfun, ("C04",))
        elif msg == MSG["CALLBACK"]:
            cbr = run.ghost.get("cb_returns", [])
            add(f"{where}::msg_truthful[callback]", cbr[-1] if cbr else False, ("C04",))
        elif msg == MSG["ABNORMAL"]:
            # C01 (necessary condition, Algorithm 778): the run may only give up after a line search has failed
            # with the memory already reset, i.e. along the projected steepest-descent direction
            add(f"{where}::abnormal_only_after_memory_reset",
                z3.And(dq_len(run, env.get("X")) == 1, dq_len(run, env.get("G")) == 1), ("C01",))
    add(f"{where}::nit_le_max(maxiter,nit0)", nit <= z3.If(maxiter >= ctx.nit0, maxiter, ctx.nit0), ("C04",))
    if cfg.jac == "callable":
        add(f"{where}::nfev_le_max(maxfun,n0)+1", nfev <= z3.If(maxfun >= ctx.n0, maxfun, ctx.n0) + 1, ("C04",))
    add(f"{where}::ftarget_called_once", count(run, "ftarget") == (1 if cfg.ftarget == "callable" else 0), ("C04",))
    add(f"{where}::gtol_called_once", count(run, "gtol") == (1 if cfg.gtol == "callable" else 0)
        if where != "return@early_target" else count(run, "gtol") <= 1, ("C04",))
    # C20: a normal return is only allowed when no user callable raised on this path
    add(f"{where}::no_user_exception_swallowed", len(run.ghost.get("user_excs", [])) == 0, ("C20",), "structural")
    # C17: the scaler is invoked once with (start point, its unscaled gradient, bounds)
    if cfg.scaler and "scaler_terms" in run.ghost:
        t = run.ghost["scaler_terms"]
        xs = ctx.x_start
        add(f"{where}::scaler_args", z3.And(t[0] == xs, t[1] == (ctx.sfcfg.gnum(xs) if not cfg.ckpt else t[1]),
                                            t[2] == ctx.lbv, t[3] == ctx.ubv), ("C17",))
        add(f"{where}::scaler_called_once", count(run, "gradient_scaler") == 1, ("C17",))
    elif cfg.scaler:
        add(f"{where}::scaler_called_once", count(run, "gradient_scaler") <= 1, ("C17",))
    else:
        add(f"{where}::scaling_is_one", env.get("sf").f["scaling_factor"] == 1.0, ("C17",), "structural")


# ------------------------------------------------------------------------------------------------ program
def make_program(cfg, shared, user_may_raise=True, track_mats=False):
    def prog(run):
        it, dom = session(run, user_may_raise=user_may_raise)
        install_callee_contracts(it)
        install_sf_method_contracts(it)
        kwargs, ctx = make_params(run, cfg)
        ctx.s = None
        ctx.track_mats = track_mats
        ctx.f_first = None
        ctx.x_start = None
        ctx.sf = None
        fn = it.lookup("main.minimize_lbfgsb")
        env_box = {}

        # observers: ghost constants are read off at well-defined program points
        def obs_prepare(interp, phase, clo, bound, res):
            if phase == "post":
                ctx.sf = res
                ctx.x_start = run.heap[bound["x0"].ref]
                ctx.f_first = None
        it.observers["scalar_function.prepare_scalar_function"] = obs_prepare

        def obs_mats_init(interp, phase, clo, bound, res):
            if phase == "post":
                o = bound["self"]
                run.ghost.setdefault("init_mats", {})[o.ref] = dict(o.f)
        it.observers["bfgsmats.LBFGSB_MATRICES.__init__"] = obs_mats_init

        def user_scaler(dom_, f, args, kw):
            from contracts.common import user_scaler as base
            r = base(dom_, f, args, kw)
            ctx.s = r.e
            return r
        dom.user_models["scaler"] = user_scaler

        def user_stopval(dom_, f, args, kw):
            from contracts.common import user_stopval as base
            r = base(dom_, f, args, kw)
            if f.name == "ftarget" and ctx.ftarget1 is None:
                ctx.ftarget1 = r
            if f.name == "gtol" and ctx.gtol1 is None:
                ctx.gtol1 = r
            return r
        dom.user_models["stopval"] = user_stopval

        def user_callback(dom_, f, args, kw):
            from contracts.common import user_callback as base
            run.ghost["cb_arg0"] = args[0] if args else None
            if len(args) >= 2 and isinstance(args[1], Obj) and "env" in env_box:
                state_clauses(run, ctx, env_box["env"], args[1], "callback_site", True)
            else:
                run.oblige("main.minimize_lbfgsb::callback_site::signature", False, ("C07",), backend="structural")
            return base(dom_, f, args, kw)
        dom.user_models["callback"] = user_callback

        if cfg.ftarget == "float":
            ctx.ftarget1 = kwargs["ftarget"]
        if cfg.gtol == "float":
            ctx.gtol1 = kwargs["gtol"]

        # stmt hook: capture the function's environment (needed by site clauses) and f_first
        class Spec(Cut):
            def pre_cut(self, interp, env):
                env_box["env"] = env
                if ctx.f_first is None and not cfg.update:
                    ctx.f_first = zreal(env.get("f0"))
                if ctx.s is None and isinstance(env.get("sf").f["scaling_factor"], Sym):
                    ctx.s = env.get("sf").f["scaling_factor"].e

            def _enter(self, interp, node, env, info, k):
                env_box["env"] = env
                if not cfg.update and (not cfg.ckpt or ctx.wf_ckpt):
                    ctx.f_first = zreal(env.get("f0"))
                else:
                    ctx.f_first = None
                return super()._enter(interp, node, env, info, k)
        it.loops[("main.minimize_lbfgsb", 1)] = Spec(main_inv, main_havoc, shared)

        orig_run_body = it.run_body

        def run_body(clo, bound, start=0, env=None):
            if clo.qualname == "main.minimize_lbfgsb" and env is None:
                from pyvc.values import Env
                env = Env(clo.env)
                env.v.update(bound)
                env_box["env"] = env
            return orig_run_body(clo, bound, start, env)
        it.run_body = run_body

        cover(run, f"MAIN[{cfg.label()}]::requires_satisfiable")
        try:
            res = it.call(fn, [], kwargs)
        except PyExc as pe:
            excs = run.ghost.get("user_excs", [])
            if excs:
                run.oblige("main.minimize_lbfgsb::raises::user_exc_unchanged",
                           pe.exc is excs[-1] and len(excs) == 1, ("C20",), backend="structural",
                           info=f"user raised {excs!r}; the caller receives {pe.exc!r}")
            else:
                # library-raised exception (ValueError of get_bounds / restore ...): allowed, nothing to check for C20
                run.oblige("main.minimize_lbfgsb::raises::library_exception_is_documented",
                           pe.exc.cls in ("ValueError",), ("SAFE",), backend="structural",
                           info=f"{pe.exc!r} args={pe.exc.args}")
            return
        env = env_box.get("env")
        if not isinstance(res, Obj):
            run.oblige("main.minimize_lbfgsb::return::is_result_object", False, ("C04",), backend="structural")
            return
        if ctx.ck is not None and res is ctx.ck:
            where = "return@checkpoint_unchanged"
        elif ctx.ck is not None and "grad" not in env.v:
            where = "return@restart_stops_at_once"
        elif run.ghost.get("in_loop") or run.ghost.get("cut_depth"):
            where = "return@final"
        elif "grad" not in env.v:
            where = "return@early_target"
        else:
            where = "return@final"
        exit_clauses(run, ctx, env, res, where)
        if where == "return@restart_stops_at_once":
            # C06: a restart that performs no iteration returns the checkpoint's state and pairs
            ck = ctx.ck
            P6 = ("C06", "C18", "C05")
            # "the same correction pairs": the checkpoint's operator itself, or - when the restart asks for a smaller
            # memory than the checkpoint carries - its most recent maxcor pairs (C06: "maxcor kept or reduced";
            # C18: "at most maxcor" holds for ANY result)
            hi, cki = res.f.get("hess_inv"), ck.f["hess_inv"]
            rows_of = uf("rows", Vec, I)
            mc = zint(ctx.ints["maxcor"])
            if hi is cki:
                same, nrows = True, rows_of(run.heap[cki.f["sk"].ref])
            elif isinstance(hi, Obj) and all(isinstance(hi.f.get(k), Arr) for k in ("sk", "yk")) and all(
                    isinstance(run.heap.get(hi.f[k].ref), MatTerm) for k in ("sk", "yk")):
                # rebuilt from the restored deques (equal to the checkpoint's most recent pairs by the contract of
                # initialize_X_and_G): the general clauses on an operator apply
                def add6(name, f, props, backend="z3"):
                    run.oblige("main.minimize_lbfgsb::" + name, f, tuple(props) + ("C06",), backend=backend)
                hess_inv_clauses(run, ctx, hi, env.get("X"), env.get("G"), where, add6)
                same, nrows = True, None
            elif isinstance(hi, Obj) and all(isinstance(hi.f.get(k), Arr) for k in ("sk", "yk")):
                nrows = rows_of(run.heap[hi.f["sk"].ref])
                same = True
                for k in ("sk", "yk"):
                    t, src = run.heap[hi.f[k].ref], run.heap[cki.f[k].ref]
                    tail = (z3.is_app(t) and t.decl().name().startswith("slice[False,True,True]")
                            and z3.eq(t.arg(0), src) and run.entails(rows_of(t) == mc))
                    same = same and bool(tail)
                    if not tail and __import__("os").environ.get("PYVC_DEBUG"):
                        print("DEBUG tail", k, t.decl().name() if z3.is_app(t) else t, "|", src, "|",
                              [str(a)[:80] for a in t.children()][:4], flush=True)
            else:
                same, nrows = False, z3.IntVal(-1)
            run.oblige("main.minimize_lbfgsb::" + where + "::same_pairs", same, P6, backend="structural",
                       info="the result's pairs are neither the checkpoint's operator nor its most recent maxcor pairs")
            if nrows is not None:
                run.oblige("main.minimize_lbfgsb::" + where + "::hess_inv::rows_le_maxcor",
                           z3.And(nrows >= 0, nrows <= mc), ("C18", "C06", "C10"))
            rx = res.f.get("x")
            run.oblige("main.minimize_lbfgsb::" + where + "::same_x",
                       run.heap[rx.ref] == run.heap[ck.f["x"].ref] if isinstance(rx, Arr) else False, P6)
            run.oblige("main.minimize_lbfgsb::" + where + "::same_fun_jac",
                       z3.And(zreal(res.f["fun"]) == zreal(ck.f["fun"]),
                              run.heap[res.f["jac"].ref] == run.heap[ck.f["jac"].ref])
                       if isinstance(res.f.get("jac"), Arr) else False, P6)
            run.oblige("main.minimize_lbfgsb::" + where + "::same_counters",
                       z3.And(zint(res.f["nfev"]) == zint(ck.f["nfev"]), zint(res.f["njev"]) == zint(ck.f["njev"]),
                              zint(res.f["nit"]) == zint(ck.f["nit"])), P6 + ("C04",))
        elif where != "return@checkpoint_unchanged":
            if where == "return@early_target":
                # no gradient computed: C05's premise is false; still C02 / counters / hess_inv
                state_clauses(run, ctx, _early_env(env, run), res, where, False)
            else:
                state_clauses(run, ctx, env, res, where, False)
    return prog


def _early_env(env, run):
    """the early-return state has no grad yet: provide a placeholder so that site clauses can be evaluated"""
    from pyvc.values import Env
    e = Env(env)
    e.set("grad", env.get("x"))
    return e


def all_configs(tier):
    jacs = ("callable", None, "2-point") if tier == "quick" else ("callable", None, "2-point", "3-point", "cs")
    out = []
    for ck, ft, gt, jac, sc, up, cb in itertools.product((False, True), (None, "float", "callable"),
                                                         ("float", "callable"), jacs, (False, True),
                                                         (False, True), (False, True)):
        out.append(Cfg(ck, ft, gt, jac, sc, up, cb))
    return out


def _work(batch_tier):
    batch, tier, keep, want = batch_tier
    shared = {}
    rep = UnitReport("MAIN")
    flt = None
    if want is not None:
        from props._mainbased import selector
        sel = selector(want)

        class _R:
            pass

        def flt(ob):
            r = _R()
            r.name, r.props = ob.name, ob.props
            return sel(r)
    for cfg in batch:
        r = run_program(f"MAIN[{cfg.label()}]", make_program(cfg, shared, track_mats=want in ("C06", "C13")),
                        keep_smt=keep, filter_obs=flt)
        rep.merge(r)
    return rep


def run_unit(tier="quick", configs=None, procs=None, keep_smt=1, want=None):
    cfgs = configs if configs is not None else all_configs(tier)
    groups = {}
    for c in cfgs:
        groups.setdefault(c.loop_key(), []).append(c)
    batches = list(groups.values())
    rep = UnitReport("MAIN")
    rep.functions |= {"main.minimize_lbfgsb", "main.is_f0_target_reached", "main.is_f0_min_change_reached",
                      "main.InternalState", "base.get_bounds", "base.is_any_inf", "base.clip2bounds",
                      "base.count_var_at_bounds", "base.projgr", "bfgsmats.LBFGSB_MATRICES.__init__",
                      "bfgsmats.update_lbfgs_matrices", "bfgsmats.update_X_and_G", "bfgsmats.is_update_X_and_G",
                      "scalar_function.prepare_scalar_function", "scalar_function.ScalarFunction.*"}
    procs = procs or min(16, len(batches))
    t0 = time.time()
    if procs <= 1 or len(batches) == 1:
        for b in batches:
            rep.merge(_work((b, tier, keep_smt, want)))
    else:
        with mp.Pool(procs) as pool:
            for r in pool.imap_unordered(_work, [(b, tier, keep_smt, want) for b in batches]):
                rep.merge(r)
    rep.wall = time.time() - t0
    return rep


if __name__ == "__main__":
    import sys
    from collections import Counter
    t0 = time.time()
    if len(sys.argv) > 1 and sys.argv[1] == "one":
        cfgs = [Cfg()]
        rep = run_unit("quick", cfgs, procs=1)
    else:
        rep = run_unit("quick")
    print("paths", rep.paths, "obligations", len(rep.results), "errors", len(rep.errors))
    for e in rep.errors[:5]:
        print("ERR", e[:1500])
    print(Counter(r.status for r in rep.results))
    bad = Counter((r.name, r.status) for r in rep.results if r.status != "proved")
    for (nm, st), k in bad.most_common(60):
        print("  ", st, k, nm)
    print("covers", Counter(ok for _, ok in rep.covers))
    print("time", round(time.time() - t0, 2))
