"""Proof unit CAUCHY (B2: fixed-shape real arithmetic): lbfgsb.cauchy.get_cauchy_point (C08).

The REAL body is executed for x, g, lb, ub of dimension n with symbolic real entries (infinite sides as a structural
case: every finite/infinite pattern), every sign/position pattern reached by forking on the masks, `argsort` forking on
comparisons, the `while` loop unrolled completely (unwinding obligation), the IndexError handler executed.
Memory: no stored pair (W = 0, use_factor False, theta > 0 symbolic) - then B = theta I and the first local minimiser
of the quadratic model along the projected path is clip(x - g/theta) component-wise (closed form, independent of the
code's recurrences).  Obligations (from the statement of C08):
  breakpoints, sorted_positive (the ordered breakpoint list is exactly {i : t_i > 0}, non-decreasing),
  feasible, pinned (variables that reached a bound sit exactly on it), on_path + first_minimiser
  (x_cp == clip(x - g/theta)), model_decrease (m(x_cp) < 0 for a non-zero projected gradient), aux (c == W^T(x_cp - x)),
  arguments untouched, results fresh.
Label: proved-at-shape (all real values; n <= 2 quick, n <= 3 thorough; memory m = 0) - counted as bounded.
"""
import itertools
import multiprocessing as mp

import z3

from pyvc.sym import Sym, Arr, Obj, ND, R, I, B, INF, wrap, zreal, zint, zbool
from pyvc.values import PyExc, PathEnd, Unsupported, Env
from pyvc.harness import session, run_program, cover, UnitReport
from pyvc.loops import Unroll
from units.kernels_unit import vec, ent, box, le, eq, assume_inbox, snapshot, untouched

P = ("C08",)


def clipz(p, l, u):
    r = p
    if not isinstance(l, float):
        r = z3.If(r < l, l, r)
    if not isinstance(u, float):
        r = z3.If(r > u, u, r)
    return r


def prog(n, pattern):
    def p(run):
        it, dom = session(run, user_may_raise=False)
        x, g = vec(run, "x", n), vec(run, "g", n)
        L, U = box(run, n, pattern)
        assume_inbox(run, x, L, U)
        xs, gs, ls, us = ent(run, x), ent(run, g), ent(run, L), ent(run, U)
        # non-zero projected gradient (premise of C08)
        nz = []
        for xi, gi, l, u in zip(xs, gs, ls, us):
            pr = clipz(xi - gi, l, u)
            nz.append(pr != xi)
        run.assume(z3.Or(*nz))
        theta = run.fresh("theta", R)
        run.assume(theta > 0)
        # A-SAFEGUARD: the Fortran trick f'' = max(f'', 1e-30 f''_0) is inactive: non-zero gradient components are
        # within a factor 1e14 of each other (then the remaining curvature never drops below 1e-30 of the initial one)
        for gi in gs:
            for gj in gs:
                if gi is not gj:
                    run.assume(z3.Implies(z3.And(gi != 0, gj != 0), gi * gi <= z3.RealVal(10) ** 28 * gj * gj))
        mats = it.call(it.lookup("bfgsmats.LBFGSB_MATRICES"), [n], {})
        mats.f["theta"] = Sym(theta)
        it.loops[("cauchy.get_cauchy_point", 1)] = Unroll(n + 1)
        env_box = {}
        orig = it.run_body

        def run_body(clo, bound, start=0, env=None):
            if clo.qualname == "cauchy.get_cauchy_point" and env is None:
                env = Env(clo.env)
                env.v.update(bound)
                env_box["env"] = env
            return orig(clo, bound, start, env)
        it.run_body = run_body
        snap = snapshot(run, (x, g, L, U))
        cover(run, f"CAUCHY[n={n},{pattern}]::requires_satisfiable")
        tag = f"cauchy.get_cauchy_point[n={n}]"
        res = it.call(it.lookup("cauchy.get_cauchy_point"), [x, g, L, U, mats, 0, -1, None], {})
        xcp, c = res
        xc = ent(run, xcp)
        env = env_box["env"]
        # ---- breakpoints and their ordering (ghost reads of the locals t, sorted_t_idx)
        if env.has("t") and env.has("sorted_t_idx"):
            t = ent(run, env.get("t"))
            srt = ent(run, env.get("sorted_t_idx"))
            bp = []
            for xi, gi, l, u, ti in zip(xs, gs, ls, us, t):
                if isinstance(ti, float) and ti == INF:
                    bp.append(z3.Or(gi == 0, z3.And(gi < 0, z3.BoolVal(isinstance(u, float))),
                                    z3.And(gi > 0, z3.BoolVal(isinstance(l, float)))))
                else:
                    tt = zreal(ti)
                    cases = [z3.And(gi < 0, tt * gi == xi - u)] if not isinstance(u, float) else []
                    cases += [z3.And(gi > 0, tt * gi == xi - l)] if not isinstance(l, float) else []
                    bp.append(z3.Or(*cases) if cases else z3.BoolVal(False))
            run.oblige(tag + "::ensures::breakpoints", z3.And(*bp), P)

            def pos(ti):
                return z3.BoolVal(True) if (isinstance(ti, float) and ti == INF) else zreal(ti) > 0

            def lez(a, b):
                if isinstance(b, float) and b == INF:
                    return z3.BoolVal(True)
                if isinstance(a, float) and a == INF:
                    return z3.BoolVal(False)
                return zreal(a) <= zreal(b)
            ok_int = all(isinstance(i, int) and 0 <= i < n for i in srt) and len(set(srt)) == len(srt)
            run.oblige(tag + "::ensures::sorted_positive::indices_valid", ok_int, P, backend="structural")
            if ok_int:
                run.oblige(tag + "::ensures::sorted_positive::all_positive", z3.And(*[pos(t[i]) for i in srt] or [z3.BoolVal(True)]), P)
                run.oblige(tag + "::ensures::sorted_positive::complete",
                           z3.And(*[z3.Implies(pos(t[i]), z3.BoolVal(i in srt)) for i in range(n)]), P)
                run.oblige(tag + "::ensures::sorted_positive::ordered",
                           z3.And(*[lez(t[a], t[b]) for a, b in zip(srt, srt[1:])] or [z3.BoolVal(True)]), P)
        else:
            run.oblige(tag + "::ensures::breakpoints", False, P, backend="structural", info="locals t/sorted_t_idx absent")
        # ---- feasibility, first minimiser on the projected path, pinning
        feas, onp, pinned = [], [], []
        for i, (xi, gi, l, u) in enumerate(zip(xs, gs, ls, us)):
            v = xc[i]
            vz = zreal(v) if not isinstance(v, float) or v not in (INF, -INF) else v
            feas.append(z3.And(le(l, vz), le(vz, u)))
            target = clipz(xi - gi / theta, l, u)
            onp.append(vz == target)
            # a variable whose path reaches a bound before the minimiser sits EXACTLY on it (assignment, not arithmetic)
            hits_u = z3.And(gi < 0, z3.BoolVal(not isinstance(u, float)), xi - gi / theta >= (u if not isinstance(u, float) else 0))
            hits_l = z3.And(gi > 0, z3.BoolVal(not isinstance(l, float)), xi - gi / theta <= (l if not isinstance(l, float) else 0))
            # exact: the entry is syntactically one of the inputs x_i / lb_i / ub_i (no arithmetic produced it) and
            # equals the bound
            atom = z3.is_expr(v) and any(z3.is_expr(w) and z3.eq(v, w) for w in (xi, l, u))
            is_u = z3.And(z3.BoolVal(bool(atom)), vz == u) if not isinstance(u, float) else z3.BoolVal(False)
            is_l = z3.And(z3.BoolVal(bool(atom)), vz == l) if not isinstance(l, float) else z3.BoolVal(False)
            pinned.append(z3.And(z3.Implies(z3.And(hits_u, xi - gi / theta > (u if not isinstance(u, float) else 0)), is_u),
                                 z3.Implies(z3.And(hits_l, xi - gi / theta < (l if not isinstance(l, float) else 0)), is_l)))
        run.oblige(tag + "::ensures::feasible", z3.And(*feas), P + ("C02",))
        run.oblige(tag + "::ensures::first_minimiser_on_projected_path", z3.And(*onp), P + ("C01",))
        run.oblige(tag + "::ensures::pinned_exactly_on_bounds", z3.And(*pinned), P)
        mval = sum((gi * (zreal(v) - xi) + theta / 2 * (zreal(v) - xi) * (zreal(v) - xi)
                    for xi, gi, v in zip(xs, gs, xc)), z3.RealVal(0))
        run.oblige(tag + "::ensures::model_decrease", mval < 0, P + ("C01", "C09"))
        cn = run.heap[c.ref]
        run.oblige(tag + "::ensures::aux_is_projection_of_displacement",
                   z3.And(*[zreal(v) == 0 for v in cn.flat]), P)
        run.oblige(tag + "::frame::arguments_untouched", untouched(run, (x, g, L, U), snap), P + ("C14",), backend="frame")
        run.oblige(tag + "::ensures::results_fresh", xcp.ref not in (x.ref, g.ref, L.ref, U.ref)
                   and run.region[xcp.ref] == "local" and run.region[c.ref] == "local", P + ("C14",), backend="frame")
    return p


def _work(args):
    n, pat, keep = args
    return run_program(f"CAUCHY[n={n},{pat}]", prog(n, pat), mode="real", keep_smt=keep, timeout_ms=60000)


def run_unit(tier="quick", procs=16):
    rep = UnitReport("CAUCHY")
    rep.functions |= {"cauchy.get_cauchy_point", "bfgsmats.LBFGSB_MATRICES.use_factor"}
    sides = [(True, True), (True, False), (False, True), (False, False)]
    jobs = []
    # n = 3 does not fit the thorough budget (a full n = 3 run did not finish within 48 min on 16 cores): thorough adds
    # only the n = 3 pattern without finite bounds; everything else at n = 3 is covered by the bounded stand-in
    for n in range(1, (2 if tier == "quick" else 3) + 1):
        pats = list(itertools.product(sides, repeat=n)) if n <= 2 else [tuple([(False, False)] * 3)]
        for pat in pats:
            jobs.append((n, pat, 1 if (n == 2 and pat == ((True, True), (True, True))) else 0))
    with mp.Pool(min(procs, len(jobs))) as pool:
        for r in pool.imap_unordered(_work, jobs):
            rep.merge(r)
    return rep


if __name__ == "__main__":
    import sys
    import time
    from collections import Counter
    t0 = time.time()
    rep = run_unit(sys.argv[1] if len(sys.argv) > 1 else "quick")
    print("paths", rep.paths, "obligations", len(rep.results), "errors", len(rep.errors))
    for e in rep.errors[:3]:
        print("ERR", e[:1500])
    print(Counter(r.status for r in rep.results))
    bad = Counter((r.name, r.status) for r in rep.results if r.status != "proved")
    for k, v in bad.most_common(20):
        print("  ", v, k)
    for r in rep.results:
        if r.status == "refuted" and "sorted_positive" in r.name:
            print("   model:", {k: v for k, v in (r.model or {}).items() if k[:1] in "xglu"}, r.label)
            break
    print("covers", Counter(ok for _, ok in rep.covers), "time", round(time.time() - t0, 1))
