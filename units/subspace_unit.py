"""Proof unit SUBSPACE (B2: fixed-shape real arithmetic): subspacemin.get_freev + subspace_minimization (C09).

The REAL bodies are executed for n-vectors with symbolic real entries, every free/active partition (forking on the
masks), memory without stored pair (W = 0, use_factor False, theta > 0 symbolic): B = theta I, so the exact minimiser
of the model restricted to the free variables is d_j = -r_j / theta with r = g + theta (xc - x) - closed form,
independent of the code's recurrences.  Obligations (from the statement of C09):
  free_set            free_vars = {i : lb_i != xc_i != ub_i}, ascending; Z, A are the 0/1 selection matrices
  active_fixed        variables on a bound at the Cauchy point keep their value exactly
  newton_truncated    xbar = xc + a* Z d with 0 <= a* <= 1, lb <= xbar <= ub, a* < 1 => a free variable sits on a bound
  none_free           no free variable => the Cauchy point itself is returned
  model_nonincrease   m(xbar) <= m(xc);   descent: m(xc) < 0 => g.(xbar - x) < 0
  arguments untouched.
Label: proved-at-shape (n <= 2 quick, n <= 3 thorough; memory m = 0) - counted as bounded.
"""
import itertools
import multiprocessing as mp

import z3

from pyvc.sym import Sym, Arr, Obj, ND, R, I, B, INF, wrap, zreal, zint, zbool
from pyvc.values import PyExc, PathEnd, Unsupported
from pyvc.harness import session, run_program, cover, UnitReport
from pyvc.lib import LIB
from units.kernels_unit import vec, ent, box, le, eq, assume_inbox, snapshot, untouched

P = ("C09",)


def m_lil_matrix(dom, args, kw):
    """scipy.sparse.lil_matrix((r, k)): modelled as a dense r x k array of zeros (selection matrices are 0/1)."""
    r, k = args[0]
    return dom.run.alloc(ND((r, k), [0.0] * (r * k)))


def m_identity(dom, args, kw):
    return args[0]


def install(dom):
    dom.lib["sp.sparse.lil_matrix"] = m_lil_matrix
    dom.lib["ndarray.tocsc"] = m_identity
    dom.lib["ndarray.todense"] = m_identity


def prog(n, pattern, old_free=None):
    def p(run):
        it, dom = session(run, user_may_raise=False)
        install(dom)
        x, g, xc = vec(run, "x", n), vec(run, "g", n), vec(run, "xc", n)
        L, U = box(run, n, pattern)
        assume_inbox(run, x, L, U)
        assume_inbox(run, xc, L, U)
        xs, gs, cs, ls, us = ent(run, x), ent(run, g), ent(run, xc), ent(run, L), ent(run, U)
        theta = run.fresh("theta", R)
        run.assume(theta > 0)
        mats = it.call(it.lookup("bfgsmats.LBFGSB_MATRICES"), [n], {})
        mats.f["theta"] = Sym(theta)
        c = run.alloc(ND((1,), [0.0]), "caller")
        snap = snapshot(run, (x, g, xc, L, U, c))
        cover(run, f"SUBSPACE[n={n},{pattern}]::requires_satisfiable")
        if old_free is None:
            fv, Z, A = it.call(it.lookup("subspacemin.get_freev"), [xc, L, U, 0, None, -1, None], {})
        else:
            # a later iteration: the previous free set is passed (it may only influence the display)
            prev = run.alloc(ND((len(old_free),), list(old_free)), "caller")
            fv, Z, A = it.call(it.lookup("subspacemin.get_freev"), [xc, L, U, 3, prev, Sym(run.fresh("iprint", I)), None], {})
        tagf = f"subspacemin.get_freev[n={n}]"
        free = ent(run, fv)
        okint = all(isinstance(i, int) for i in free)
        run.oblige(tagf + "::ensures::indices_ascending", okint and list(free) == sorted(set(free)), P,
                   backend="structural")
        if not okint:
            return
        isfree = [z3.And(z3.Not(eq(cs[i], us[i])), z3.Not(eq(cs[i], ls[i]))) for i in range(n)]
        run.oblige(tagf + "::ensures::free_set", z3.And(*[isfree[i] if i in free else z3.Not(isfree[i])
                                                         for i in range(n)]), P)
        Zn, An = run.heap[Z.ref], run.heap[A.ref]
        act = [i for i in range(n) if i not in free]
        okZ = Zn.shape == (n, len(free)) and all(Zn.flat[i * len(free) + j] == (1 if free[j] == i else 0)
                                                 for i in range(n) for j in range(len(free)))
        okA = An.shape == (n, len(act)) and all(An.flat[i * len(act) + j] == (1 if act[j] == i else 0)
                                                for i in range(n) for j in range(len(act)))
        run.oblige(tagf + "::ensures::Z_A_are_selection_matrices", bool(okZ and okA), P, backend="structural")
        tag = f"subspacemin.subspace_minimization[n={n}]"
        env_box = {}
        orig = it.run_body

        def run_body(clo, bound, start=0, env=None):
            if clo.qualname == "subspacemin.subspace_minimization" and env is None:
                from pyvc.values import Env
                env = Env(clo.env)
                env.v.update(bound)
                env_box["env"] = env
            return orig(clo, bound, start, env)
        it.run_body = run_body
        xbar = it.call(it.lookup("subspacemin.subspace_minimization"), [x, xc, fv, Z, A, c, g, L, U, mats], {})
        if not free:
            run.oblige(tag + "::ensures::none_free_returns_cauchy_point", xbar.ref == xc.ref, P, backend="structural")
            return
        xb = ent(run, xbar)
        run.oblige(tag + "::ensures::active_fixed", z3.And(*[zreal(xb[i]) == cs[i] for i in act] or [z3.BoolVal(True)]),
                   P + ("C02",))
        run.oblige(tag + "::ensures::feasible", z3.And(*[z3.And(le(ls[i], zreal(xb[i])), le(zreal(xb[i]), us[i]))
                                                         for i in range(n)]), P + ("C02",))
        # exact restricted Newton direction for B = theta I
        dnew = {i: -(gs[i] + theta * (cs[i] - xs[i])) / theta for i in free}
        touch = z3.Or(*[z3.And(dnew[i] != 0, z3.Or(eq(zreal(xb[i]), ls[i]), eq(zreal(xb[i]), us[i]))) for i in free])
        env = env_box.get("env")
        if env is not None and env.has("alpha_star") and isinstance(env.get("alpha_star"), (Sym, float, int)):
            a = zreal(env.get("alpha_star"))        # ghost read of the local: the witness of the existential
            # newton_truncated, split into three smaller obligations (nonlinear queries stay stable when small)
            run.oblige(tag + "::ensures::newton_truncated::factor_in_unit_interval", z3.And(a >= 0, a <= 1), P)
            for i in free:
                run.oblige(tag + f"::ensures::newton_truncated::on_exact_newton_ray[{i}]",
                           zreal(xb[i]) == cs[i] + a * dnew[i], P)
            run.oblige(tag + "::ensures::newton_truncated::largest_feasible_factor", z3.Implies(a < 1, touch), P)
        else:
            a = run.fresh("alpha_star", R)
            on_ray = z3.And(*[zreal(xb[i]) == cs[i] + a * dnew[i] for i in free])
            run.oblige(tag + "::ensures::newton_truncated",
                       z3.Exists([a], z3.And(a >= 0, a <= 1, on_ray, z3.Implies(a < 1, touch))), P)

        def model(z):
            return sum((gs[i] * (z[i] - xs[i]) + theta / 2 * (z[i] - xs[i]) * (z[i] - xs[i]) for i in range(n)),
                       z3.RealVal(0))
        # model non-increase as a lemma over the contracts (no path condition): ANY point of the form
        # xc + a * Z d with the exact restricted Newton direction d and 0 <= a <= 1, active variables unchanged, has a
        # model value <= m(xc); `newton_truncated` and `active_fixed` above show that xbar is such a point.
        from pyvc.sym import Obligation
        aa = run.fresh("a_lem", R)
        zl = [cs[i] + aa * dnew[i] if i in dnew else cs[i] for i in range(n)]
        run.obls.append(Obligation(tag + "::lemma::model_nonincrease", [theta > 0, aa >= 0, aa <= 1],
                                   model(zl) <= model(cs), P, "z3", run.site, None, list(run.decisions)))
        # descent lemma, a formula over the contracts only (no path condition needed): with B = theta I positive
        # definite, m(xbar) <= m(xc) < 0  =>  g.(xbar - x) < 0.  model_nonincrease above supplies the first premise and
        # C08's model_decrease the second.
        zb = [run.fresh(f"z{i}", R) for i in range(n)]
        mz = model(zb)
        mcv = run.fresh("m_xc", R)
        lem = z3.Implies(z3.And(mz <= mcv, mcv < 0),
                         sum((gs[i] * (zb[i] - xs[i]) for i in range(n)), z3.RealVal(0)) < 0)
        run.obls.append(Obligation(tag + "::lemma::descent_direction", [theta > 0], lem, P + ("C01",), "z3", run.site,
                                   None, list(run.decisions)))
        run.oblige(tag + "::frame::arguments_untouched", untouched(run, (x, g, xc, L, U, c), snap), P + ("C14",),
                   backend="frame")
        run.oblige(tag + "::ensures::result_fresh", xbar.ref not in (x.ref, xc.ref, g.ref, L.ref, U.ref), P + ("C14",),
                   backend="frame")
    return p


def prog_factorize_k(m):
    """subspacemin.factorize_k (the LEL^T factorization of the indefinite middle matrix K used when pairs are stored):
    requires K symmetric (2m x 2m), -K[:m,:m] and the Schur complement K22 + K12' K11^-1 K12 positive definite (stated
    through the pivots: the contract of the two Cholesky calls); ensures LK @ E @ LK' == K entry-wise, LK lower
    triangular, K untouched.  Real arithmetic, m = 1 (2x2) and m = 2 (4x4)."""
    def p(run):
        it, dom = session(run, user_may_raise=False)
        install(dom)
        N = 2 * m
        ent = [[None] * N for _ in range(N)]
        for i in range(N):
            for j in range(i, N):
                ent[i][j] = ent[j][i] = run.fresh(f"K{i}{j}", R)
        K = run.alloc(ND((N, N), [ent[i][j] for i in range(N) for j in range(N)]), "caller")
        before = list(run.heap[K.ref].flat)
        tag = f"subspacemin.factorize_k[m={m}]"
        # requires (stated on K, independently of the code): A = -K[:m,:m] and the Schur complement
        # S = K22 + K12' A^-1 K12 (with K12 = -K[:m,m:]) are positive definite (leading principal minors)
        if m == 1:
            a, b, c2 = -ent[0][0], -ent[0][1], ent[1][1]
            run.assume(a > 0)
            run.assume(c2 * a + b * b > 0)
        else:
            A = [[-ent[i][j] for j in range(2)] for i in range(2)]
            Bm = [[-ent[i][2 + j] for j in range(2)] for i in range(2)]
            C = [[ent[2 + i][2 + j] for j in range(2)] for i in range(2)]
            detA = A[0][0] * A[1][1] - A[0][1] * A[1][0]
            run.assume(A[0][0] > 0)
            run.assume(detA > 0)
            adj = [[A[1][1], -A[0][1]], [-A[1][0], A[0][0]]]            # A^-1 = adj / detA
            # detA * S = detA * C + B' adj B
            S = [[detA * C[i][j] + sum(Bm[k][i] * adj[k][l] * Bm[l][j] for k in range(2) for l in range(2))
                  for j in range(2)] for i in range(2)]
            run.assume(S[0][0] > 0)
            run.assume(S[0][0] * S[1][1] - S[0][1] * S[1][0] > 0)
        cover(run, f"FACTORIZE_K[m={m}]::requires_satisfiable")
        try:
            LK = it.call(it.lookup("subspacemin.factorize_k"), [K], {"is_assert_correct": False})
        except PyExc as pe:
            # LinAlgError of a Cholesky call <=> a pivot is not positive: outside the precondition
            run.oblige(tag + "::raises::only_LinAlgError_on_indefinite_blocks", pe.exc.cls == "LinAlgError", ("C09",),
                       backend="structural", info=repr(pe.exc))
            return
        c = run.heap[LK.ref]
        ok_shape = isinstance(c, ND) and tuple(c.shape) == (N, N)
        run.oblige(tag + "::ensures::shape", ok_shape, ("C09", "C12"), backend="structural")
        if not ok_shape:
            return
        L = [[zreal(c.flat[i * N + j]) for j in range(N)] for i in range(N)]
        sign = [-1] * m + [1] * m
        eqs = []
        for i in range(N):
            for j in range(N):
                eqs.append(sum((L[i][k] * sign[k] * L[j][k] for k in range(N)), z3.RealVal(0)) == ent[i][j])
        run.oblige(tag + "::ensures::LK_E_LKt_equals_K", z3.And(*eqs), ("C09", "C12", "C01"))
        run.oblige(tag + "::ensures::lower_triangular",
                   z3.And(*[L[i][j] == 0 for i in range(N) for j in range(i + 1, N)]), ("C09", "C12"))
        run.oblige(tag + "::frame::K_untouched",
                   all(a is b or (z3.is_expr(a) and z3.is_expr(b) and z3.eq(a, b)) for a, b in
                       zip(run.heap[K.ref].flat, before)), ("C09", "C14"), backend="frame")
    return p


def _work_fk(m):
    return run_program(f"SUBSPACE[factorize_k,m={m}]", prog_factorize_k(m), mode="real", keep_smt=0, timeout_ms=60000)


def _work(args):
    n, pat, keep, old = args
    return run_program(f"SUBSPACE[n={n},{pat},old_free={old}]", prog(n, pat, old), mode="real", keep_smt=keep,
                       timeout_ms=60000)


def run_unit(tier="quick", procs=16):
    rep = UnitReport("SUBSPACE")
    rep.functions |= {"subspacemin.get_freev", "subspacemin.subspace_minimization"}
    sides = [(True, True), (True, False), (False, True), (False, False)]
    jobs = []
    for n in range(1, (2 if tier == "quick" else 3) + 1):
        pats = list(itertools.product(sides, repeat=n)) if n <= 2 else \
            [tuple([(True, True)] * 3), ((True, True), (True, False), (False, False))]
        for pat in pats:
            jobs.append((n, pat, 1 if (n == 2 and pat == ((True, True), (True, True))) else 0, None))
        # previous free sets (iteration > 0): every subset at n <= 2, a few at n = 3
        olds = [tuple(c) for k in range(n + 1) for c in itertools.combinations(range(n), k)]
        for old in (olds if n <= 2 else olds[:4]):
            jobs.append((n, tuple([(True, True)] * n), 0, old))
    rep.functions |= {"subspacemin.factorize_k"}
    with mp.Pool(min(procs, len(jobs))) as pool:
        fk = [pool.apply_async(_work_fk, (m,)) for m in ((1, 2) if tier == "quick" else (1, 2))]
        for r in pool.imap_unordered(_work, jobs):
            rep.merge(r)
        for a in fk:
            rep.merge(a.get())
    return rep


if __name__ == "__main__":
    import sys
    import time
    from collections import Counter
    t0 = time.time()
    rep = run_unit(sys.argv[1] if len(sys.argv) > 1 else "quick")
    print("paths", rep.paths, "obligations", len(rep.results), "errors", len(rep.errors))
    for e in rep.errors[:3]:
        print("ERR", e[:1500])
    print(Counter(r.status for r in rep.results))
    bad = Counter((r.name, r.status) for r in rep.results if r.status != "proved")
    for k, v in bad.most_common(20):
        print("  ", v, k)
    print("covers", Counter(ok for _, ok in rep.covers), "time", round(time.time() - t0, 1))
