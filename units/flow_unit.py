"""Proof unit FLOW (B5): frame / determinism / information-flow obligations decided on the AST of the whole package.

A sound syntactic type system, not a solver query; its obligations are the individual statements and occurrences it
had to classify (backend "flow").
  no_global_state        - no module-level mutable binding is read or written by a function; no `global`/`nonlocal`
  defaults_untouched     - parameters with mutable default objects are only used in the dead minpack2 branch
  class_attrs_shadowed   - class-level attributes are never assigned through the class
  no_nondeterminism      - no random/time/id/hash/set-iteration in the package
  logging_noninterference- every occurrence of iprint / logger / a value derived from them is a pass-through argument,
                           a test of a logging-only `if`, or inside a logger call; display helpers have no other effect
  user_exc_handlers      - no `except` clause can catch an exception coming out of a user callable (C20), except the
                           scalar-conversion guard in fun_wrapped which encloses no user call
"""
import ast
import time

from pyvc.harness import program, UnitReport

DISPLAY_FUNCS = {"display_start", "display_iter", "display_results", "display_start_point"}
NONDET_MODULES = {"random", "time", "uuid", "secrets", "datetime", "threading", "multiprocessing", "os", "sys",
                  "socket"}
NONDET_CALLS = {"id", "hash", "input", "open", "vars", "globals", "locals", "set", "frozenset"}
USER_CALLABLE_NAMES = {"fun", "grad", "jac", "callback", "update_fun_def", "gradient_scaler", "ftarget", "gtol",
                       "fun_wrapped", "grad_wrapped", "phi", "dphi"}


class R:
    """Result-compatible record."""
    __slots__ = ("name", "status", "backend", "time", "props", "site", "info", "model", "path", "label", "smt2",
                 "goal")

    def __init__(self, name, ok, props, site, info=""):
        self.name, self.status, self.backend, self.time = name, "proved" if ok else "refuted", "flow", 0.0
        self.props, self.site, self.info, self.model = tuple(props), site, info, None
        self.path, self.label, self.smt2, self.goal = [], "FLOW", None, info


def functions_of(tree):
    out = []

    def walk(n, prefix):
        for c in ast.iter_child_nodes(n):
            if isinstance(c, ast.FunctionDef):
                out.append((prefix + c.name, c))
                walk(c, prefix + c.name + ".")
            elif isinstance(c, ast.ClassDef):
                walk(c, prefix + c.name + ".")
            else:
                walk(c, prefix)
    walk(tree, "")
    return out


def parents_map(root):
    pm = {}
    for n in ast.walk(root):
        for c in ast.iter_child_nodes(n):
            pm[id(c)] = n
    return pm


def is_logger_call_stmt(st):
    return (isinstance(st, ast.Expr) and isinstance(st.value, ast.Call) and isinstance(st.value.func, ast.Attribute)
            and isinstance(st.value.func.value, ast.Name) and st.value.func.value.id == "logger")


def is_display_call_stmt(st):
    v = st.value if isinstance(st, (ast.Expr, ast.Assign)) else None
    return isinstance(v, ast.Call) and isinstance(v.func, ast.Name) and v.func.id in DISPLAY_FUNCS


def logging_only_block(body, fn=None):
    temps = set()
    for st in body:
        if isinstance(st, ast.Assign) and len(st.targets) == 1 and isinstance(st.targets[0], ast.Name) and fn is not None:
            # a temporary that is read only inside this block (by the logger calls that follow)
            nm = st.targets[0].id
            inside = {id(x) for s2 in body for x in ast.walk(s2)}
            if all(id(x) in inside for x in ast.walk(fn) if isinstance(x, ast.Name) and x.id == nm) and not any(
                    isinstance(c, ast.Call) and not (isinstance(c.func, ast.Attribute) and (
                        ast.unparse(c.func).startswith("np.") or ast.unparse(c.func).startswith("logger.")))
                    for c in ast.walk(st.value)):
                temps.add(nm)
                continue
        if is_logger_call_stmt(st) or (isinstance(st, ast.Expr) and is_display_call_stmt(st)):
            continue
        if isinstance(st, ast.If) and logging_only_block(st.body, fn) and logging_only_block(st.orelse, fn):
            continue
        if isinstance(st, ast.Assign) and len(st.targets) == 1 and isinstance(st.targets[0], ast.Name) \
                and isinstance(st.value, ast.BinOp | ast.Subscript | ast.Name) is False and False:
            continue
        return False
    return True


def run_unit(tier="quick"):
    t0 = time.time()
    rep = UnitReport("FLOW")
    prog = program()
    res = rep.results
    P14, P20 = ("C14",), ("C20",)
    all_funcs = {}
    for mod, (tree, path, src) in prog.modules.items():
        for q, fn in functions_of(tree):
            all_funcs[(mod, q)] = fn
    sigs = {}
    for (mod, q), fn in all_funcs.items():
        sigs.setdefault(fn.name, []).append([a.arg for a in fn.args.args] + [a.arg for a in fn.args.kwonlyargs])

    for mod, (tree, path, src) in prog.modules.items():
        if mod in ("__about__",):
            continue
        site = lambda n: (f"lbfgsb/{mod}.py", getattr(n, "lineno", 0))     # noqa: E731
        # ---- module-level bindings
        mutable_globals = set()
        for st in tree.body:
            if isinstance(st, (ast.Assign, ast.AnnAssign)):
                tgts = st.targets if isinstance(st, ast.Assign) else [st.target]
                v = st.value
                if v is None:
                    continue
                immut = isinstance(v, (ast.Constant, ast.Tuple, ast.Subscript, ast.Attribute, ast.Name)) and all(
                    isinstance(e, ast.Constant) for e in getattr(v, "elts", []))
                for t in tgts:
                    if isinstance(t, ast.Name) and not immut:
                        mutable_globals.add(t.id)
                    res.append(R("flow::no_global_state::module_binding_immutable", immut or not isinstance(t, ast.Name)
                                 or t.id.startswith("__") or isinstance(v, (ast.Subscript, ast.Attribute)), P14 + P20,
                                 site(st), f"module-level binding {ast.unparse(t)} = {ast.unparse(v)[:60]}"))
        # ---- class-level bindings: a mutable object bound in a class body is shared by every instance (and by
        # every optimisation in the process) unless each instance rebinds it
        for cd in ast.walk(tree):
            if not isinstance(cd, ast.ClassDef):
                continue
            for st in cd.body:
                if not isinstance(st, (ast.Assign, ast.AnnAssign)) or st.value is None:
                    continue
                tgts = st.targets if isinstance(st, ast.Assign) else [st.target]
                v = st.value
                immut = isinstance(v, (ast.Constant, ast.Tuple, ast.Name, ast.Attribute, ast.UnaryOp)) and all(
                    isinstance(e, ast.Constant) for e in getattr(v, "elts", []))
                is_field = isinstance(v, ast.Call) and isinstance(v.func, ast.Name) and v.func.id == "field"
                for t in tgts:
                    dunder = isinstance(t, ast.Name) and t.id.startswith("__")
                    if isinstance(t, ast.Name) and not (immut or is_field or dunder):
                        mutable_globals.add(t.id)
                    res.append(R("flow::no_global_state::class_binding_immutable", immut or is_field or dunder,
                                 P14 + P20 + ("C16", "C15"), site(st),
                                 f"class-level binding {cd.name}.{ast.unparse(t)} = {ast.unparse(v)[:60]}"))
        for n in ast.walk(tree):
            if isinstance(n, (ast.Global, ast.Nonlocal)):
                res.append(R("flow::no_global_state::no_global_statement", False, P14 + P20, site(n),
                             f"{type(n).__name__} {n.names}"))
            if isinstance(n, (ast.Import, ast.ImportFrom)):
                names = [a.name.split(".")[0] for a in n.names] if isinstance(n, ast.Import) else [(n.module or "").split(".")[0]]
                bad = [x for x in names if x in NONDET_MODULES]
                res.append(R("flow::no_nondeterminism::imports", not bad, P14, site(n), f"import of {names}"))
            if isinstance(n, ast.Call):
                f = n.func
                if isinstance(f, ast.Name) and f.id in NONDET_CALLS:
                    res.append(R("flow::no_nondeterminism::calls", False, P14, site(n), f"call of {f.id}()"))
                if isinstance(f, ast.Attribute) and isinstance(f.value, ast.Attribute) and f.value.attr == "random":
                    res.append(R("flow::no_nondeterminism::calls", False, P14, site(n), "np.random use"))
            if isinstance(n, (ast.Set, ast.SetComp)):
                res.append(R("flow::no_nondeterminism::set_iteration", False, P14, site(n), "set display"))
        res.append(R("flow::no_nondeterminism::scanned", True, P14, (f"lbfgsb/{mod}.py", 0), "module scanned"))

        for q, fn in functions_of(tree):
            pm = parents_map(fn)
            # ---- writes through a class / to module-level names
            for n in ast.walk(fn):
                if isinstance(n, (ast.Assign, ast.AugAssign)):
                    tgts = n.targets if isinstance(n, ast.Assign) else [n.target]
                    for t in tgts:
                        base = t
                        while isinstance(base, (ast.Attribute, ast.Subscript)):
                            base = base.value
                        if isinstance(base, ast.Name) and isinstance(t, (ast.Attribute, ast.Subscript)):
                            nm = base.id
                            is_cls = nm[:1].isupper() and nm not in ("X", "G", "K", "N", "Z", "A", "M", "E", "J", "L",
                                                                    "S", "Y", "D", "W", "LK", "L11", "L12", "L22",
                                                                    "K11", "K12", "K22", "WTZ", "STS", "YTZZTY",
                                                                    "STZZTY", "STAATS")
                            res.append(R("flow::no_global_state::class_attrs_shadowed",
                                         not is_cls and nm not in mutable_globals, P14 + P20, site(n),
                                         f"store through {ast.unparse(t)[:50]}"))
            # ---- mutable defaults
            a = fn.args
            pos = a.args
            dflts = a.defaults
            mut_params = []
            for p, d in zip(pos[len(pos) - len(dflts):], dflts):
                if isinstance(d, (ast.Call, ast.List, ast.Dict, ast.Set)):
                    mut_params.append(p.arg)
            for p, d in zip(a.kwonlyargs, a.kw_defaults):
                if d is not None and isinstance(d, (ast.Call, ast.List, ast.Dict, ast.Set)):
                    mut_params.append(p.arg)
            if mut_params:
                # names bound once to `Version(spversion) < Version("1.12")`
                dead_flags = set()
                for n in ast.walk(fn):
                    v = n.value if isinstance(n, (ast.Assign, ast.AnnAssign)) else None
                    if v is not None and isinstance(v, ast.Compare) and "Version(spversion)" in ast.unparse(v) \
                            and isinstance(v.ops[0], ast.Lt):
                        t = n.targets[0] if isinstance(n, ast.Assign) else n.target
                        if isinstance(t, ast.Name):
                            import glob
                            import re
                            from packaging.version import Version
                            m = re.search(r"Version\(['\"]([0-9.]+)['\"]\)", ast.unparse(v))
                            ver = None
                            for pth in glob.glob("/venv/lib/python3*/site-packages/scipy-*.dist-info"):
                                mm = re.search(r"scipy-([0-9][^/]*)\.dist-info", pth)
                                if mm:
                                    ver = mm.group(1)
                            if m and ver and not (Version(ver) < Version(m.group(1))):
                                dead_flags.add(t.id)
                for n in ast.walk(fn):
                    if isinstance(n, ast.Name) and n.id in mut_params and isinstance(n.ctx, ast.Load):
                        cur, ok = n, False
                        while id(cur) in pm:
                            par = pm[id(cur)]
                            if isinstance(par, ast.If) and isinstance(par.test, ast.Name) and par.test.id in dead_flags \
                                    and any(cur is s or _contains(s, cur) for s in par.body):
                                ok = True
                                break
                            cur = par
                        res.append(R("flow::defaults_untouched", ok, P14 + P20, site(n),
                                     f"use of mutable-default parameter {n.id} "
                                     f"{'inside the dead minpack2 branch (A-SCIPY>=1.12)' if ok else 'on a live path'}"))
            # ---- exception handlers (C20)
            for n in ast.walk(fn):
                if isinstance(n, ast.Try):
                    calls = [c for st in n.body for c in ast.walk(st) if isinstance(c, ast.Call)]
                    user = [c for c in calls if (isinstance(c.func, ast.Name) and c.func.id in USER_CALLABLE_NAMES)
                            or (isinstance(c.func, ast.Attribute) and isinstance(c.func.value, ast.Name)
                                and c.func.value.id in ("sf", "self") and c.func.attr in
                                ("fun", "grad", "fun_and_grad", "_update_fun", "_update_grad"))
                            # library routines that call back into user code
                            or (isinstance(c.func, ast.Name) and c.func.id in ("approx_derivative", "line_search",
                                                                               "minimize_lbfgsb"))
                            or (isinstance(c.func, ast.Attribute) and c.func.attr in ("_iterate", "dcsrch"))
                            or any(isinstance(a_, ast.Name) and a_.id in USER_CALLABLE_NAMES for a_ in c.args)]
                    broad = [h for h in n.handlers if h.type is None or ast.unparse(h.type) in
                             ("Exception", "BaseException")]
                    res.append(R("flow::user_exc_handlers::no_user_call_inside_try", not user and not broad, P20,
                                 site(n), f"{q}: try block encloses {[ast.unparse(c.func) for c in user] or 'no'} user "
                                          f"call(s); handlers {[ast.unparse(h.type) if h.type else 'bare' for h in n.handlers]}"))
            # ---- logging non-interference
            params = [x.arg for x in a.args] + [x.arg for x in a.kwonlyargs]
            if fn.name in DISPLAY_FUNCS:
                ok = all(isinstance(st, (ast.If, ast.Return, ast.Expr)) for st in fn.body) and not any(
                    isinstance(n, (ast.Assign, ast.AugAssign, ast.AnnAssign, ast.While, ast.For, ast.Raise, ast.Try))
                    for n in ast.walk(fn)) and all(
                    (isinstance(c.func, ast.Attribute) and isinstance(c.func.value, ast.Name) and c.func.value.id == "logger")
                    or (isinstance(c.func, ast.Name) and c.func.id in ("projgr", "len", "str", "int", "float"))
                    or (isinstance(c.func, ast.Attribute) and ast.unparse(c.func) in ("np.linalg.norm",))
                    for c in ast.walk(fn) if isinstance(c, ast.Call))
                res.append(R("flow::logging_noninterference::display_helper_has_no_effect", ok, P14, site(fn),
                             f"{fn.name}: only if/return/logger calls, no assignment, no raise"))
                continue
            tainted = {p for p in params if p in ("iprint", "logger")}
            if not tainted and not any(isinstance(n, ast.Name) and n.id in ("iprint", "logger") for n in ast.walk(fn)):
                continue
            changed = True
            while changed:
                changed = False
                for n in ast.walk(fn):
                    if isinstance(n, ast.Assign) and len(n.targets) == 1 and isinstance(n.targets[0], ast.Name):
                        v = n.value
                        passthrough = set()
                        for c in ast.walk(v):
                            if isinstance(c, ast.Call) and isinstance(c.func, ast.Name) and c.func.id in sigs \
                                    and c.func.id not in DISPLAY_FUNCS:
                                for arg in list(c.args) + [k.value for k in c.keywords]:
                                    if isinstance(arg, ast.Name):
                                        passthrough.add(id(arg))
                        dep = any(isinstance(x, ast.Name) and x.id in tainted and id(x) not in passthrough
                                  for x in ast.walk(v)) or (
                            isinstance(v, ast.Call) and isinstance(v.func, ast.Name) and v.func.id in DISPLAY_FUNCS)
                        if dep and n.targets[0].id not in tainted:
                            tainted.add(n.targets[0].id)
                            changed = True
            for n in ast.walk(fn):
                if not (isinstance(n, ast.Name) and n.id in tainted and isinstance(n.ctx, ast.Load)):
                    continue
                # nested function bodies are analysed on their own
                cur, kind = n, None
                while id(cur) in pm:
                    par = pm[id(cur)]
                    if isinstance(par, ast.Call):
                        fnm = par.func.id if isinstance(par.func, ast.Name) else (
                            par.func.attr if isinstance(par.func, ast.Attribute) else None)
                        if isinstance(par.func, ast.Attribute) and isinstance(par.func.value, ast.Name) \
                                and par.func.value.id == "logger":
                            kind = "inside a logger call"
                            break
                        if fnm in sigs and cur is not par.func:
                            # pass-through: bound to a parameter named like the tainted source
                            kw = [k for k in par.keywords if k.value is cur]
                            if kw:
                                okp = kw[0].arg in ("iprint", "logger", "free_vars_old") or fnm in DISPLAY_FUNCS
                            else:
                                idx = par.args.index(cur) if cur in par.args else -1
                                okp = fnm in DISPLAY_FUNCS or any(
                                    idx < len(s) and s[idx] in ("iprint", "logger") for s in sigs[fnm])
                            if okp:
                                kind = f"pass-through argument of {fnm}"
                            break
                    if isinstance(par, ast.If) and (cur is par.test or _contains(par.test, cur)):
                        if logging_only_block(par.body, fn) and logging_only_block(par.orelse, fn):
                            kind = "test of a logging-only if"
                        break
                    if isinstance(par, ast.Assign) and len(par.targets) == 1 and isinstance(par.targets[0], ast.Name) \
                            and par.targets[0].id in tainted:
                        kind = "assignment to a logging-only variable"
                        break
                    if isinstance(par, (ast.stmt,)):
                        if is_logger_call_stmt(par):
                            kind = "inside a logger call"
                        break
                    cur = par
                res.append(R("flow::logging_noninterference::occurrence", kind is not None, P14, site(n),
                             f"{q}: `{n.id}` " + (kind or "flows into a non-logging context")))
    rep.paths = len(prog.modules)
    rep.functions |= {"(whole package: syntactic frame/flow analysis)"}
    rep.wall = time.time() - t0
    return rep


def _contains(root, node):
    for x in ast.walk(root):
        if x is node:
            return True
    return False


if __name__ == "__main__":
    from collections import Counter
    r = run_unit()
    print(len(r.results), Counter((x.name, x.status) for x in r.results))
    for x in r.results:
        if x.status != "proved":
            print("  ", x.name, x.site, x.info)
