"""Proof unit KERNEL (B2: fixed-shape real arithmetic, z3 NRA): small numeric kernels executed from their real source
with arrays of a stated concrete shape and symbolic real entries (every loop has a concrete trip count and is unrolled
completely; boolean masks fork entry by entry).  Label: proved-at-shape (all real values, bounded shapes); where the
function acts component-wise (A-ELEM) n = 1 is complete in n.

  linesearch.max_allowed_steplength  0 <= r <= max_steplength, x + r*d feasible, maximal (C11, C02 in exact arithmetic)
  base.projgr / base.clip2bounds     value and feasibility
  main.initialize_X_and_G            the restored deques are the most recent points of the history, in order (C06)
  utils.get_gradient_projection_unit_scaling   1 / || x - P(x - g) ||_inf  (C17)
  utils.extract_hess_inv_diag        result[i] = (H e_i)[i] for a linear operator (C18)
"""
import itertools

import z3

from pyvc.sym import Sym, Arr, Obj, ND, R, I, B, INF, wrap, zreal, zint, zbool
from pyvc.values import PyExc, PathEnd, Unsupported
from pyvc.harness import session, run_program, cover, UnitReport
from pyvc.loops import Unroll


def vec(run, name, n, region="caller"):
    a = run.alloc(ND((n,), [run.fresh(f"{name}{i}", R) for i in range(n)]), region)
    run.tags[a.ref] = name
    return a


def ent(run, a):
    return run.heap[a.ref].flat


def zr(v):
    return zreal(v) if not (isinstance(v, float) and v in (INF, -INF)) else v


def box(run, n, pattern):
    """pattern: tuple of (lower finite?, upper finite?) per component; infinite sides are concrete +-inf"""
    lb, ub = [], []
    for i, (lf, uf_) in enumerate(pattern):
        lb.append(run.fresh(f"lb{i}", R) if lf else -INF)
        ub.append(run.fresh(f"ub{i}", R) if uf_ else INF)
    L = run.alloc(ND((n,), lb), "caller")
    U = run.alloc(ND((n,), ub), "caller")
    return L, U


def le(a, b):
    if isinstance(a, float) and a == -INF or isinstance(b, float) and b == INF:
        return z3.BoolVal(True)
    if isinstance(a, float) and a == INF or isinstance(b, float) and b == -INF:
        return z3.BoolVal(False)
    return zreal(a) <= zreal(b)


def eq(a, b):
    if isinstance(a, float) and a in (INF, -INF) or isinstance(b, float) and b in (INF, -INF):
        return z3.BoolVal(a == b) if isinstance(a, float) and isinstance(b, float) else z3.BoolVal(False)
    return zreal(a) == zreal(b)


def assume_inbox(run, x, L, U):
    for xi, l, u in zip(ent(run, x), ent(run, L), ent(run, U)):
        run.assume(z3.And(le(l, xi), le(xi, u)))


def snapshot(run, arrs):
    return [list(run.heap[a.ref].flat) for a in arrs]


def untouched(run, arrs, snap):
    return all(len(run.heap[a.ref].flat) == len(s) and all((x is y) or (z3.is_expr(x) and z3.is_expr(y) and z3.eq(x, y))
                                                            or (not z3.is_expr(x) and not z3.is_expr(y) and x == y)
                                                            for x, y in zip(run.heap[a.ref].flat, s))
               for a, s in zip(arrs, snap))


# ------------------------------------------------------------------------------------------------ step length
def prog_steplength(n, pattern):
    def prog(run):
        it, dom = session(run, user_may_raise=False)
        x, d = vec(run, "x", n), vec(run, "d", n)
        L, U = box(run, n, pattern)
        assume_inbox(run, x, L, U)
        ms = run.fresh("max_steplength", R)
        run.assume(ms >= 0)
        niter = run.fresh("n_iter", I)
        run.assume(niter >= 1)
        snap = snapshot(run, (x, d, L, U))
        cover(run, f"steplength[{n},{pattern}]")
        tag = f"linesearch.max_allowed_steplength[n={n}]"
        r = it.call(it.lookup("linesearch.max_allowed_steplength"), [x, d, L, U, Sym(ms), Sym(niter)], {})
        P = ("C11", "C02")
        rr = zreal(r)
        run.oblige(tag + "::ensures::range", z3.And(rr >= 0, rr <= ms), P)
        feas, touch = [], []
        for xi, di, l, u in zip(ent(run, x), ent(run, d), ent(run, L), ent(run, U)):
            p = xi + rr * di
            feas.append(z3.And(le(l, p), le(p, u)))
            touch.append(z3.And(di != 0, z3.Or(eq(p, l), eq(p, u))))
        run.oblige(tag + "::ensures::feasible_at_result", z3.And(*feas), P)
        run.oblige(tag + "::ensures::maximal", z3.Implies(rr < ms, z3.Or(*touch)), ("C11",))
        run.oblige(tag + "::frame::arguments_untouched", untouched(run, (x, d, L, U), snap), ("C14", "C11"),
                   backend="frame")
    return prog


def prog_steplength_iter0(run):
    it, dom = session(run, user_may_raise=False)
    x, d = vec(run, "x", 1), vec(run, "d", 1)
    L, U = box(run, 1, ((True, True),))
    r = it.call(it.lookup("linesearch.max_allowed_steplength"), [x, d, L, U, Sym(run.fresh("ms", R)), 0], {})
    run.oblige("linesearch.max_allowed_steplength::ensures::first_iteration_unit_cap", r == 1.0, ("C11", "C12"),
               backend="structural")


# ------------------------------------------------------------------------------------------------ projgr / clip
def prog_projgr(n, pattern):
    def prog(run):
        it, dom = session(run, user_may_raise=False)
        x, g = vec(run, "x", n), vec(run, "g", n)
        L, U = box(run, n, pattern)
        for l, u in zip(ent(run, L), ent(run, U)):
            run.assume(le(l, u))
        snap = snapshot(run, (x, g, L, U))
        r = it.call(it.lookup("base.projgr"), [x, g, L, U], {})
        rr = zreal(r)
        comps = []
        for xi, gi, l, u in zip(ent(run, x), ent(run, g), ent(run, L), ent(run, U)):
            p = xi - gi
            if not (isinstance(l, float)):
                p = z3.If(p < l, l, p)
            if not (isinstance(u, float)):
                p = z3.If(p > u, u, p)
            c = p - xi
            comps.append(z3.If(c >= 0, c, -c))
        tag = f"base.projgr[n={n}]"
        run.oblige(tag + "::ensures::is_inf_norm_of_projected_gradient",
                   z3.And(z3.And(*[rr >= c for c in comps]), z3.Or(*[rr == c for c in comps])), ("C04", "C01"))
        run.oblige(tag + "::frame::arguments_untouched", untouched(run, (x, g, L, U), snap), ("C14",), backend="frame")
        x2 = vec(run, "y", n)
        s2 = snapshot(run, (x2,))
        c = it.call(it.lookup("base.clip2bounds"), [x2, L, U], {})
        ce = ent(run, c)
        run.oblige(f"base.clip2bounds[n={n}]::ensures::inbox",
                   z3.And(*[z3.And(le(l, v), le(v, u)) for v, l, u in zip(ce, ent(run, L), ent(run, U))]), ("C02",))
        run.oblige(f"base.clip2bounds[n={n}]::ensures::identity_inside",
                   z3.And(*[z3.Implies(z3.And(le(l, xi), le(xi, u)), zreal(v) == xi)
                            for v, xi, l, u in zip(ce, ent(run, x2), ent(run, L), ent(run, U))]), ("C02",))
        run.oblige(f"base.clip2bounds[n={n}]::ensures::fresh_result", c.ref != x2.ref and untouched(run, (x2,), s2),
                   ("C14", "C02"), backend="frame")
    return prog


# ------------------------------------------------------------------------------------------------ restore (C06)
def prog_restore(n, m, maxcor):
    def prog(run):
        it, dom = session(run, user_may_raise=False)
        Xh = [[run.fresh(f"X{k}_{i}", R) for i in range(n)] for k in range(m + 1)]
        Gh = [[run.fresh(f"G{k}_{i}", R) for i in range(n)] for k in range(m + 1)]
        sk = [Xh[k + 1][i] - Xh[k][i] for k in range(m) for i in range(n)]
        yk = [Gh[k + 1][i] - Gh[k][i] for k in range(m) for i in range(n)]
        ck = Obj("OptimizeResult", run.new_ref("caller"))
        ck.f["x"] = run.alloc(ND((n,), list(Xh[m])), "caller")
        ck.f["jac"] = run.alloc(ND((n,), list(Gh[m])), "caller")
        hi = Obj("LbfgsInvHessProduct", run.new_ref("caller"))
        hi.f["sk"] = run.alloc(ND((m, n), sk), "caller")
        hi.f["yk"] = run.alloc(ND((m, n), yk), "caller")
        ck.f["hess_inv"] = hi
        # ANY checkpoint: a returned result or a state kept by the callback (C07) - the report fields are arbitrary
        # (a callback state carries status 2 and the running task, a result whatever made the run stop)
        ck.f["status"] = Sym(run.fresh("ck_status", I))
        ck.f["success"] = Sym(run.fresh("ck_success", B))
        ck.f["message"] = Sym(run.fresh("ck_message", I))         # opaque: only (in)equality with literals is defined
        ck.f["nit"], ck.f["nfev"], ck.f["njev"] = (Sym(run.fresh(k, I)) for k in ("ck_nit", "ck_nfev", "ck_njev"))
        ck.f["fun"] = Sym(run.fresh("ck_fun", R))
        x = run.alloc(ND((n,), list(Xh[m])), "caller")
        arrs = (ck.f["x"], ck.f["jac"], hi.f["sk"], hi.f["yk"], x)
        snap = snapshot(run, arrs)
        tag = f"main.initialize_X_and_G[n={n},pairs={m},maxcor={maxcor}]"
        X, G = it.call(it.lookup("main.initialize_X_and_G"), [x, ck, maxcor], {})
        cx, cg = run.heap[X.ref], run.heap[G.ref]
        keep = min(m, maxcor + 1)
        P = ("C06", "C07")
        run.oblige(tag + "::ensures::lengths", len(cx) == keep and len(cg) == keep, P, backend="structural",
                   info=f"len X = {len(cx)}, expected {keep}")
        ok = []
        for j in range(min(keep, len(cx), len(cg))):
            src = m - keep + j
            ex, eg = run.heap[cx[j].ref].flat, run.heap[cg[j].ref].flat
            ok.append(z3.And(*[zreal(a) == b for a, b in zip(ex, Xh[src])] + [zreal(a) == b for a, b in zip(eg, Gh[src])]))
        run.oblige(tag + "::ensures::history_in_order_most_recent_kept", z3.And(*ok) if ok else z3.BoolVal(True), P)
        run.oblige(tag + "::frame::checkpoint_untouched", untouched(run, arrs, snap), ("C06", "C07", "C14"),
                   backend="frame")
        run.oblige(tag + "::ensures::fresh_deques", run.region[X.ref] == "local" and run.region[G.ref] == "local",
                   ("C06", "C07", "C14"), backend="frame")
    return prog


def prog_restore_mismatch(run):
    it, dom = session(run, user_may_raise=False)
    ck = Obj("OptimizeResult", run.new_ref("caller"))
    ck.f["x"] = vec(run, "cx", 2)
    ck.f["jac"] = vec(run, "cj", 2)
    hi = Obj("LbfgsInvHessProduct", run.new_ref("caller"))
    hi.f["sk"] = run.alloc(ND((1, 2), [run.fresh("s", R), run.fresh("s", R)]), "caller")
    hi.f["yk"] = run.alloc(ND((1, 2), [run.fresh("y", R), run.fresh("y", R)]), "caller")
    ck.f["hess_inv"] = hi
    x = vec(run, "x", 2)
    same = z3.And(*[a == b for a, b in zip(ent(run, x), ent(run, ck.f["x"]))])
    try:
        it.call(it.lookup("main.initialize_X_and_G"), [x, ck, 3], {})
        run.oblige("main.initialize_X_and_G::ensures::x0_equals_checkpoint_x_or_raises", same, ("C06",))
    except PyExc as pe:
        run.oblige("main.initialize_X_and_G::raises::ValueError_iff_x0_differs",
                   z3.And(z3.Not(same), z3.BoolVal(pe.exc.cls == "ValueError")), ("C06",))


# ------------------------------------------------------------------------------------------------ utils
def prog_scaler(n, pattern):
    def prog(run):
        it, dom = session(run, user_may_raise=False)
        x, g = vec(run, "x", n), vec(run, "g", n)
        L, U = box(run, n, pattern)
        for l, u in zip(ent(run, L), ent(run, U)):
            run.assume(le(l, u))
        comps = []
        for xi, gi, l, u in zip(ent(run, x), ent(run, g), ent(run, L), ent(run, U)):
            p = xi - gi
            if not isinstance(l, float):
                p = z3.If(p < l, l, p)
            if not isinstance(u, float):
                p = z3.If(p > u, u, p)
            c = xi - p
            comps.append(z3.If(c >= 0, c, -c))
        # NO premise on the projected gradient: the solver calls the scaler on whatever start it is given, also a
        # stationary one (all variables on their bounds with the gradient pushing outward, a converged restart, ...)
        mx = run.fresh("mx", R)
        run.assume(z3.And(z3.And(*[mx >= c for c in comps]), z3.Or(*[mx == c for c in comps])))
        tag = f"utils.get_gradient_projection_unit_scaling[n={n}]"
        try:
            r = it.call(it.lookup("utils.get_gradient_projection_unit_scaling"), [x, g, L, U], {})
        except PyExc as pe:
            run.oblige(tag + "::ensures::finite_positive_factor_for_every_start", False, ("C17", "C04"),
                       info=f"raises {pe.exc!r} (division by a zero projected gradient)")
            return
        if isinstance(r, float) and r in (INF, -INF):
            run.oblige(tag + "::ensures::finite_positive_factor_for_every_start", False, ("C17", "C04"),
                       info="returns an infinite factor")
            return
        rr = zreal(r)
        run.oblige(tag + "::ensures::finite_positive_factor_for_every_start", rr > 0, ("C17", "C04"))
        run.oblige(tag + "::ensures::inverse_of_max_change", z3.Implies(mx > 0, rr * mx == 1), ("C17",))
    return prog


def prog_diag(n):
    def prog(run):
        it, dom = session(run, user_may_raise=False)
        H = [[run.fresh(f"H{i}_{j}", R) for j in range(n)] for i in range(n)]
        op = Obj("LbfgsInvHessProduct", run.new_ref("caller"))
        op.f["shape"] = (n, n)
        op.f["_dense"] = run.alloc(ND((n, n), [x for r in H for x in r]), "caller")

        def matvec(dom_, args, kw):
            # ASSUMED: LbfgsInvHessProduct.matvec(v) == todense() @ v (a linear operator; conformance-tested)
            o, v = args
            return dom_.lib_call("arr:binop", ["MatMult", o.f["_dense"], v, False], {})
        dom.lib["LbfgsInvHessProduct.matvec"] = matvec
        snap = snapshot(run, (op.f["_dense"],))
        r = it.call(it.lookup("utils.extract_hess_inv_diag"), [op], {})
        re = ent(run, r)
        run.oblige(f"utils.extract_hess_inv_diag[n={n}]::ensures::is_diagonal_of_dense_operator",
                   len(re) == n and z3.And(*[zreal(re[i]) == H[i][i] for i in range(n)]) if len(re) == n else False,
                   ("C18",))
        run.oblige(f"utils.extract_hess_inv_diag[n={n}]::frame::operator_untouched",
                   untouched(run, (op.f["_dense"],), snap), ("C18", "C14"), backend="frame")
    return prog


def run_unit(tier="quick", keep_smt=1, only=None):
    rep = UnitReport("KERNEL")
    if only == "restore":
        rep.functions |= {"main.initialize_X_and_G"}
        _restore_grid(rep, tier, keep_smt)
        return rep
    rep.functions |= {"linesearch.max_allowed_steplength", "base.projgr", "base.clip2bounds", "main.initialize_X_and_G",
                      "utils.get_gradient_projection_unit_scaling", "utils.extract_hess_inv_diag"}
    nmax = 2 if tier == "quick" else 3
    sides = [(True, True), (True, False), (False, True), (False, False)]
    for n in range(1, nmax + 1):
        pats = list(itertools.product(sides, repeat=n)) if n <= 2 else [tuple([s] * n) for s in sides]
        for pat in pats:
            rep.merge(run_program(f"KERNEL[steplength,n={n},{pat}]", prog_steplength(n, pat), mode="real", keep_smt=0))
            rep.merge(run_program(f"KERNEL[projgr,n={n},{pat}]", prog_projgr(n, pat), mode="real", keep_smt=0))
        rep.merge(run_program(f"KERNEL[scaler,n={n}]", prog_scaler(n, tuple([(True, True)] * n)), mode="real"))
    rep.merge(run_program("KERNEL[steplength,iter0]", prog_steplength_iter0, mode="real"))
    for n in range(1, (4 if tier == "quick" else 7)):
        rep.merge(run_program(f"KERNEL[hess_inv_diag,n={n}]", prog_diag(n), mode="real"))
    _restore_grid(rep, tier, keep_smt)
    return rep


def _restore_grid(rep, tier, keep_smt):
    grid = [(1, m, mc) for m in range(1, 5) for mc in range(1, 5)] + [(2, 2, 1), (2, 3, 2)]
    if tier != "quick":
        grid += [(3, m, mc) for m in (1, 3, 5) for mc in (1, 2, 6)]
    for n, m, mc in grid:
        rep.merge(run_program(f"KERNEL[restore,n={n},pairs={m},maxcor={mc}]", prog_restore(n, m, mc), mode="real",
                              keep_smt=keep_smt if (n, m, mc) == (1, 3, 2) else 0))
    rep.merge(run_program("KERNEL[restore,mismatch]", prog_restore_mismatch, mode="real"))


if __name__ == "__main__":
    import sys
    import time
    from collections import Counter
    t0 = time.time()
    rep = run_unit(sys.argv[1] if len(sys.argv) > 1 else "quick")
    print("paths", rep.paths, "obligations", len(rep.results), "errors", len(rep.errors))
    for e in rep.errors[:4]:
        print("ERR", e[:900])
    print(Counter(r.status for r in rep.results))
    bad = Counter((r.name, r.status) for r in rep.results if r.status != "proved")
    for k, v in bad.most_common(20):
        print("  ", v, k)
    print("covers", Counter(ok for _, ok in rep.covers), "time", round(time.time() - t0, 1))
