"""Proof unit LS: lbfgsb.linesearch.line_search under contract (B1, UF domain) - C03, C11, C04 (budget), C02 (sites).

Contract (the one main relies on, plus C11's own clauses, all from the property statements):
  requires  lb <= x0 <= ub, lb <= ub, f0 == Fs(x0), max_iter >= 1, Inv(sf) with sf's bounds == (lb, ub)
  ensures   result is None, or 0 < result <= stpmax and Fs(trial(result)) < f0 and lb <= trial(result) <= ub
            where trial(a) = clip(x0 + a*d, lb, ub) is the point the code evaluates;
            every point handed to the user lies inside the box (obligations at the ScalarFunction call sites);
            callable gradient: at most max_iter objective evaluations; Inv(sf) preserved; arguments not written;
            user exceptions propagate unchanged.
loop#1 is cut by an invariant, so the clauses hold for every number of trials (every maxls / evaluation budget).
DCSRCH._iterate is abstract: ASSUMED CONTRACT - it calls neither phi nor dphi; returns (stp', f, g, task') with task'
in FG | CONV | WARN | ERROR; unless ERROR: stpmin(=0) <= stp' <= stpmax; on START the step is returned unchanged.
"""
import z3

from pyvc.sym import (Sym, Arr, Obj, UserFn, SymBytes, Vec, R, I, B, uf, wrap, zreal, zint, zbool, INF)
from pyvc.values import PyExc, PathEnd, Unsupported
from pyvc.harness import session, run_program, cover, UnitReport
from pyvc.loops import Cut
from pyvc.lib import all_le, inbox, vec_of, LIB, model
from pyvc.domain import LibMethod
from contracts.common import F, Gr, Fs, Vs, count, fresh_vec, vscale
from contracts.scalar_function import (SfCfg, sf_inv, sf_havoc, install_sf_method_contracts)
from contracts.main import Poison, Ctx

P_ALL = ("C11",)


def clipv(x, lb, ub):
    return uf("clip", Vec, Vec, Vec, Vec)(x, lb, ub)


def trial(x0, d, stp, lb, ub):
    return clipv(uf("vadd", Vec, Vec, Vec)(x0, vscale(d, zreal(stp))), lb, ub)


# ------------------------------------------------------------------------------------------------ library models
def m_dcsrch_new(dom, args, kw):
    o = Obj("DCSRCH", dom.run.new_ref())
    names = ("phi", "derphi", "ftol", "gtol", "xtol", "stpmin", "stpmax")
    for k, v in zip(names, args):
        o.f[k] = v
    o.f.update(kw)
    dom.run.ghost["dcsrch"] = o
    return o


def m_dcsrch_iterate(dom, args, kw):
    run = dom.run
    o, stp, f, g, task = args
    tag = run.fresh("task", I)
    run.assume(z3.And(tag >= 0, tag <= 3))
    stpmax, stpmin = zreal(o.f["stpmax"]), zreal(o.f["stpmin"])
    if isinstance(task, bytes) and task == b"START":
        nstp = zreal(stp)
        run.ghost["first_step"] = stp
        run.assume(z3.Or(tag == 0, tag == 3))
        run.assume(z3.Implies(tag == 0, z3.And(nstp >= stpmin, nstp <= stpmax)))
    elif isinstance(task, bytes):
        raise Unsupported(f"DCSRCH._iterate called with task {task!r}")
    else:
        run.oblige("linesearch.line_search::call(_iterate)::requires::task_is_FG", task.tag == 0, ("C11",))
        nstp = run.fresh("stp", R)
        run.assume(z3.Implies(tag != 3, z3.And(nstp >= stpmin, nstp <= stpmax)))
    run.ghost["n_iterate"] = run.ghost.get("n_iterate", 0) + 1
    return (Sym(nstp), f, g, SymBytes(tag))


def c_max_allowed_steplength(it, clo, b, site):
    """CONTRACT (verified in unit KERNEL, real arithmetic, component-wise): n_iter == 0 -> 1.0; otherwise
    0 <= result <= max_steplength given lb <= x <= ub and max_steplength >= 0."""
    run = it.dom.run
    n_iter = b["n_iter"]
    if not run.branch(zint(n_iter) != 0):
        return 1.0
    r = run.fresh("stpmax", R)
    run.assume(r <= zreal(b["max_steplength"]))
    return Sym(r)


def install(it, dom):
    dom.lib["sp.optimize._dcsrch.DCSRCH"] = m_dcsrch_new
    dom.lib["DCSRCH._iterate"] = m_dcsrch_iterate
    it.contracts["linesearch.max_allowed_steplength"] = c_max_allowed_steplength
    install_sf_method_contracts(it)


# ------------------------------------------------------------------------------------------------ invariant
def zr(v):
    """like zreal, with the float infinities as (unconstrained) constants"""
    if isinstance(v, float) and v in (INF, -INF):
        cst = z3.Const("FLOAT_INF", R)
        return cst if v > 0 else uf("fneg", R, R)(cst)
    return zreal(v)


def ls_inv(it, env, phase):
    run = it.dom.run
    c = run.ghost["ls"]
    out = []

    def add(lab, f, props):
        out.append((lab, f, props))
    g = env.get
    _iter, best_stp, best_f, task = g("_iter"), g("best_stp"), g("best_f"), g("task")
    sf = g("sf")
    add("iter_range", z3.And(zint(_iter) >= 0, zint(_iter) <= c["max_iter"]), ("C11", "C04"))
    if c["mode"] == "callable":
        add("eval_budget", count(run, "fun") - c["cF0"] <= zint(_iter), ("C11", "C04"))
        add("grad_eval_budget", count(run, "jac") - c["cG0"] <= zint(_iter), ("C11",))
    is_start = isinstance(task, bytes) and task == b"START"
    add("task_is_START_or_FG", is_start or (isinstance(task, SymBytes) and run.entails(task.tag == 0)), ("C11",))
    add("START_iff_first_trial", (zint(_iter) == 0) if is_start else (zint(_iter) >= 1), ("C11",))
    if best_stp is None:
        add("best_none_means_no_decrease", zr(best_f) == c["f0"], ("C11", "C03"))
    else:
        tp = trial(c["x0v"], c["dv"], best_stp, c["lbv"], c["ubv"])
        add("best_is_lowest_trial", z3.And(zr(best_f) == Fs(tp, sf.f["scaling_factor"]), zr(best_f) < c["f0"],
                                           zreal(best_stp) >= 0, zreal(best_stp) <= c["stpmax"]), ("C11", "C03"))
    for lab, f in sf_inv(run, sf, c["cfg"], c["base_f"], c["base_g"]):
        add("sf::" + lab, f, ("C11", "C05"))
    add("scaling_untouched", zreal(sf.f["scaling_factor"]) == c["s"], ("C11", "C17"))
    return out


def ls_havoc(it, env):
    run = it.dom.run
    c = run.ghost["ls"]
    names = []

    def setv(k, v):
        env.set(k, v)
        names.append(k)
    setv("_iter", Sym(run.fresh("_iter", I)))
    k = run.choose("ls_state", 4)
    if k in (0, 1):
        setv("task", b"START" if k == 0 else SymBytes(z3.IntVal(0)))
        setv("best_stp", None)
    else:
        setv("task", b"START" if k == 2 else SymBytes(z3.IntVal(0)))
        setv("best_stp", Sym(run.fresh("best_stp", R)))
    setv("best_f", Sym(run.fresh("best_f", R)))
    for nm in ("steplength_0", "f_m1", "dphi_m1"):
        setv(nm, Sym(run.fresh(nm, R)))
    # `steplength` is bound by the first trial: unbound exactly in the START state
    setv("steplength", Poison("steplength") if k in (0, 2) else Sym(run.fresh("steplength", R)))
    # f0 / dphi0 are re-bound by every `_iterate` call: the entry values in the START state, arbitrary afterwards
    if k in (0, 2):
        setv("f0", Sym(c["f0"]))
        setv("dphi0", env.get("dphi0"))
    else:
        setv("f0", Sym(run.fresh("f0_loop", R)))
        setv("dphi0", Sym(run.fresh("dphi0_loop", R)))
    sf = env.get("sf")
    sf_havoc(run, sf, c["cfg"])
    sf.f["scaling_factor"] = Sym(c["s"])
    return names


# ------------------------------------------------------------------------------------------------ program
def make_program(mode, shared):
    def prog(run):
        it, dom = session(run)
        install(it, dom)
        x0 = fresh_vec(run, "x0", "caller", "x0")
        g0 = fresh_vec(run, "g0", "caller", "g0")
        d = fresh_vec(run, "d", "caller", "d")
        lb = fresh_vec(run, "lb", "caller", "lb")
        ub = fresh_vec(run, "ub", "caller", "ub")
        x0v, dv, lbv, ubv = (run.heap[a.ref] for a in (x0, d, lb, ub))
        eps = Sym(run.fresh("eps", R))
        cfg = SfCfg(mode, lbv, ubv, eps, None)
        ctx = Ctx()
        ctx.sfcfg = cfg
        run.ghost["ctx"] = ctx
        fun = UserFn("fun", "F")
        jac = UserFn("jac", "G") if mode == "callable" else mode
        psf = it.lookup("scalar_function.prepare_scalar_function")
        xs = fresh_vec(run, "xs", "caller")
        sf = it.call(psf, [fun, xs], dict(jac=jac, args=(), epsilon=eps, bounds=(lb, ub), finite_diff_rel_step=None))
        base_f, base_g = sf_havoc(run, sf, cfg)
        ctx.base_f, ctx.base_g = base_f, base_g
        s = run.fresh("scaling", R)
        sf.f["scaling_factor"] = Sym(s)
        for lab, f in sf_inv(run, sf, cfg, base_f, base_g):
            run.assume(f if not isinstance(f, bool) else z3.BoolVal(f))
        f0 = run.fresh("f0", R)
        run.assume(f0 == Fs(x0v, Sym(s)))
        run.assume(inbox(x0v, lbv, ubv))
        run.assume(all_le(lbv, ubv))
        # IEEE fact (no NaN/inf): x + 0*d == x
        run.assume(uf("vadd", Vec, Vec, Vec)(x0v, vscale(dv, z3.RealVal(0))) == x0v)
        max_iter = run.fresh("max_iter", I)
        run.assume(max_iter >= 1)
        above = run.fresh("above_iter", I)
        run.assume(above >= 0)
        msu = run.fresh("max_steplength_user", R)
        run.assume(msu >= 0)
        # (the axioms of np.clip are supplied as ground instances for every clip term of a query: pyvc.solve)
        run.ghost["base_pc"] = list(run.pc)
        c = dict(mode=mode, cfg=cfg, x0v=x0v, dv=dv, lbv=lbv, ubv=ubv, f0=f0, s=s, max_iter=max_iter,
                 cF0=count(run, "fun"), cG0=count(run, "jac"), base_f=base_f, base_g=base_g, stpmax=None)
        run.ghost["ls"] = c

        def obs_max(interp, phase, clo, bound, res):
            if phase == "post":
                c["stpmax"] = zreal(res)
        it.observers["linesearch.max_allowed_steplength"] = obs_max
        class LsCut(Cut):
            def pre_cut(self, interp, env):
                # C12 (constants / dataflow of the reference algorithm), checked once the search object exists
                o = run.ghost.get("dcsrch")
                PP = ("C12",)
                tg = "linesearch.line_search::dataflow"
                if o is None:
                    run.oblige(tg + "::dcsrch_created", False, PP, backend="structural")
                    return
                for nm, arg in (("ftol", args[10]), ("gtol", args[11]), ("xtol", args[12])):
                    run.oblige(f"{tg}::{nm}_reaches_dcsrch_unmodified", o.f.get(nm) is arg, PP, backend="structural")
                run.oblige(tg + "::stpmin_is_zero", o.f.get("stpmin") == 0.0, PP, backend="structural")
                run.oblige(tg + "::stpmax_is_max_allowed_steplength",
                           c["stpmax"] is not None and zreal(o.f.get("stpmax")) == c["stpmax"], PP)
                st0 = env.get("steplength_0")
                first = z3.And(zint(args[6]) == 0, z3.Not(zbool(args[8])))
                inv_norm = uf("fdiv", R, R, R)(z3.RealVal(1), uf("np.sqrt_s", R, R)(uf("dot", Vec, Vec, R)(dv, dv)))
                run.oblige(tg + "::first_step_rule",
                           z3.And(z3.Implies(first, z3.And(zreal(st0) <= c["stpmax"],
                                                           z3.Or(zreal(st0) == inv_norm, zreal(st0) == c["stpmax"]))),
                                  # later iterations / boxed problems: the unit step of Algorithm 778, except that a
                                  # bound of the step marginally below 1 (rounding) caps it
                                  z3.Implies(z3.Not(first), z3.Or(zreal(st0) == 1,
                                                                  z3.And(zreal(st0) == c["stpmax"], c["stpmax"] < 1)))),
                           PP + ("C11",))
        it.loops[("linesearch.line_search", 1)] = LsCut(ls_inv, ls_havoc, shared)
        fn = it.lookup("linesearch.line_search")
        cover(run, f"LS[{mode}]::requires_satisfiable")
        args = [x0, Sym(f0), g0, d, lb, ub, Sym(above), Sym(msu), Sym(run.fresh("is_boxed", B)), sf,
                Sym(run.fresh("ftol", R)), Sym(run.fresh("gtol", R)), Sym(run.fresh("xtol", R)), Sym(max_iter),
                Sym(run.fresh("iprint", I)), None]
        tag = "linesearch.line_search"
        try:
            res = it.call(fn, args, {})
        except PyExc as pe:
            excs = run.ghost.get("user_excs", [])
            run.oblige(tag + "::raises::only_user_exception_unchanged",
                       bool(excs) and pe.exc is excs[-1] and len(excs) == 1, ("C20", "C11"), backend="structural",
                       info=repr(pe.exc) + str(pe.exc.args))
            return
        run.oblige(tag + "::ensures::no_user_exception_swallowed", not run.ghost.get("user_excs"), ("C20",),
                   backend="structural")
        sfac = sf.f["scaling_factor"]
        if res is None:
            run.oblige(tag + "::ensures::none_or_step", True, ("C11", "C03"), backend="structural")
        elif isinstance(res, (Sym, float, int)) and not isinstance(res, bool):
            tp = trial(x0v, dv, res, lbv, ubv)
            run.oblige(tag + "::ensures::strict_decrease", Fs(tp, sfac) < f0, ("C11", "C03"))
            run.oblige(tag + "::ensures::step_positive", zreal(res) > 0, ("C11",))
            run.oblige(tag + "::ensures::step_le_max_feasible", zreal(res) <= c["stpmax"]
                       if c["stpmax"] is not None else False, ("C11",))
            run.oblige(tag + "::ensures::accepted_point_inbox", inbox(tp, lbv, ubv), ("C11", "C02"))
        else:
            run.oblige(tag + "::ensures::none_or_step", False, ("C11", "C03"), backend="structural",
                       info=f"returns {res!r}")
        if mode == "callable":
            run.oblige(tag + "::ensures::eval_budget", count(run, "fun") - c["cF0"] <= max_iter, ("C11", "C04"))
            run.oblige(tag + "::ensures::grad_eval_budget", count(run, "jac") - c["cG0"] <= max_iter, ("C11",))
        for lab, f in sf_inv(run, sf, cfg, base_f, base_g):
            run.oblige(f"{tag}::ensures::sf_inv::{lab}", f, ("C11", "C05"))
        run.oblige(tag + "::ensures::scaling_untouched", zreal(sfac) == s, ("C11", "C17"))
    return prog


def run_unit(tier="quick", keep_smt=1):
    rep = UnitReport("LS")
    rep.functions |= {"linesearch.line_search", "linesearch.line_search.trial_point", "linesearch.line_search.phi",
                      "linesearch.line_search.dphi"}
    modes = ("callable", "2-point", None) if tier == "quick" else ("callable", None, "2-point", "3-point", "cs")
    for mode in modes:
        shared = {}
        rep.merge(run_program(f"LS[{mode}]", make_program(mode, shared), keep_smt=keep_smt))
    return rep


if __name__ == "__main__":
    import time
    from collections import Counter
    t0 = time.time()
    rep = run_unit()
    print("paths", rep.paths, "obligations", len(rep.results), "errors", rep.errors[:3])
    print(Counter(r.status for r in rep.results))
    bad = Counter((r.name, r.status, r.label) for r in rep.results if r.status != "proved")
    for k, v in bad.most_common(40):
        print("  ", v, k)
    print("covers", Counter(ok for _, ok in rep.covers), "time", round(time.time() - t0, 1))
