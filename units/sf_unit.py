"""Proof unit SF: lbfgsb.scalar_function under contract (C15; feeds C05, C16).

Establishment: prepare_scalar_function(...) -> Inv(sf), no user call, x owned.
Preservation + method postconditions: from a *generic* state satisfying Inv (all fields fresh, scaling factor fresh,
counters re-based, caller arrays arbitrary) each of fun / grad / fun_and_grad at an arbitrary requested point.
=> every history of any length over any alphabet of points, every gradient mode.
"""
import z3

from pyvc.sym import Sym, Arr, Obj, UserFn, Vec, R, I, B, wrap, zreal, zint, zbool
from pyvc.harness import session, run_program, cover, UnitReport
from pyvc.values import PyExc
from contracts.common import F, Gr, Fs, Vs, count, fresh_vec, inbox
from contracts.scalar_function import SfCfg, sf_inv, sf_havoc, MODES, sf_method_spec, sf_old_state

P = ("C15",)


def make_program(mode, method):
    def prog(run):
        it, dom = session(run, user_may_raise=(method is not None))
        x0 = fresh_vec(run, "x0", "caller", "caller's x0")
        lb = fresh_vec(run, "lb", "caller", "lb")
        ub = fresh_vec(run, "ub", "caller", "ub")
        eps = Sym(run.fresh("eps", R))
        rel = Sym(run.fresh("rel_step", R))
        fun = UserFn("fun", "F")
        jac = UserFn("jac", "G") if mode == "callable" else mode
        cfg = SfCfg(mode, run.heap[lb.ref], run.heap[ub.ref], eps, rel)
        psf = it.lookup("scalar_function.prepare_scalar_function")
        sf = it.call(psf, [fun, x0], dict(jac=jac, args=(), epsilon=eps, bounds=(lb, ub),
                                          finite_diff_rel_step=rel))
        tag0 = f"scalar_function.ScalarFunction.__init__[{mode}]"
        if method is None:
            for lab, f in sf_inv(run, sf, cfg, z3.IntVal(0), z3.IntVal(0)):
                run.oblige(f"{tag0}::inv_established::{lab}", f, P)
            run.oblige(f"{tag0}::ensures::no_user_call",
                       z3.And(count(run, "fun") == 0, count(run, "jac") == 0), P)
            run.oblige(f"{tag0}::ensures::x_is_copy_of_x0", run.heap[sf.f["x"].ref] == run.heap[x0.ref], P)
            run.oblige(f"{tag0}::ensures::x_not_alias", sf.f["x"].ref != x0.ref, P, backend="frame")
            run.oblige(f"{tag0}::ensures::scaling_is_one", sf.f["scaling_factor"] == 1.0, P, backend="structural")
            return
        # ---- generic state under the invariant ------------------------------------------------------
        base_f, base_g = sf_havoc(run, sf, cfg)
        s = Sym(run.fresh("scaling", R))
        sf.f["scaling_factor"] = s
        run.heap[x0.ref] = run.fresh("x0_later", Vec)          # the caller may have modified its arrays
        for lab, f in sf_inv(run, sf, cfg, base_f, base_g):
            run.assume(f if not isinstance(f, bool) else z3.BoolVal(f))
        arg = fresh_vec(run, "req_x", "caller", "requested point (caller's array)")
        av = run.heap[arg.ref]
        if mode != "callable":
            run.assume(inbox(av, cfg.lb, cfg.ub))            # requires: FD modes need a feasible point
        cover(run, f"{method}[{mode}]::requires_and_inv_satisfiable")
        old = dict(fu=zbool(sf.f["f_updated"]), gu=zbool(sf.f["g_updated"]), xv=run.heap[sf.f["x"].ref],
                   cF=count(run, "fun"), cG=count(run, "jac"), st=zint(run.ghost["stencil"]),
                   fd=zint(run.ghost["fd_calls"]))
        old_state = sf_old_state(run, sf)
        tag = f"scalar_function.ScalarFunction.{method}[{mode}]"
        try:
            res = it.call(it.getattr(sf, method), [arg], {})
        except PyExc as pe:
            # exceptional exit: only a user exception may get here, unchanged; the invariant still holds
            excs = run.ghost.get("user_excs", [])
            run.oblige(tag + "::raises::only_user_exception_unchanged", any(pe.exc is e for e in excs), P,
                       backend="structural", info=repr(pe.exc))
            for lab, f in sf_inv(run, sf, cfg, base_f, base_g):
                run.oblige(f"{tag}::inv_preserved_on_raise::{lab}", f, P)
            return
        sv = zreal(sf.f["scaling_factor"])
        same = av == old["xv"]
        fcached = z3.And(old["fu"], same)
        gcached = z3.And(old["gu"], same)
        if method == "fun":
            run.oblige(tag + "::ensures::fresh_value", zreal(res) == Fs(av, sv), P)
        elif method == "grad":
            run.oblige(tag + "::ensures::fresh_value", run.heap[res.ref] == Vs(cfg.gnum(av), sv), P)
            run.oblige(tag + "::ensures::result_fresh",
                       res.ref not in (sf.f["x"].ref, sf.f["g"].ref, arg.ref) and run.region[res.ref] == "local",
                       P, backend="frame")
        else:
            run.oblige(tag + "::ensures::fresh_value",
                       z3.And(zreal(res[0]) == Fs(av, sv), run.heap[res[1].ref] == Vs(cfg.gnum(av), sv)), P)
            run.oblige(tag + "::ensures::result_fresh",
                       res[1].ref not in (sf.f["x"].ref, sf.f["g"].ref, arg.ref)
                       and run.region[res[1].ref] == "local", P, backend="frame")
        run.oblige(tag + "::ensures::scaling_untouched", sv == zreal(s), P)
        # the objective is not re-evaluated at the point it was last evaluated at
        stencil = zint(run.ghost["stencil"]) - old["st"]
        dF = count(run, "fun") - old["cF"]
        if mode == "callable":
            if method == "grad":
                run.oblige(tag + "::ensures::no_reeval", dF == 0, P)
            else:
                run.oblige(tag + "::ensures::no_reeval", dF == z3.If(fcached, 0, 1), P)
            if method == "fun":
                run.oblige(tag + "::ensures::grad_calls", count(run, "jac") == old["cG"], P)
            else:
                run.oblige(tag + "::ensures::grad_calls",
                           count(run, "jac") == old["cG"] + z3.If(gcached, 0, 1), P)
        else:
            dfd = zint(run.ghost["fd_calls"]) - old["fd"]
            if method == "fun":
                run.oblige(tag + "::ensures::no_reeval", z3.And(dF == z3.If(fcached, 0, 1), dfd == 0), P)
            else:
                # a gradient request recomputes the differences only when the gradient is not cached, and the
                # base value F(x) only when it is not cached either; every other call is a stencil call
                base = z3.If(fcached, 0, 1) if method == "fun_and_grad" else z3.If(z3.Or(gcached, fcached), 0, 1)
                run.oblige(tag + "::ensures::no_reeval",
                           z3.And(dfd == z3.If(gcached, 0, 1), dF - stencil == base,
                                  z3.Implies(gcached, stencil == 0)), P)
        # the post-state specification that callers rely on (contracts.scalar_function.sf_method_spec)
        kst = zint(run.ghost["stencil"]) - old["st"]
        post = sf_method_spec(method, cfg, old_state, av, kst)
        PP = ("C15", "C05", "SPEC")
        run.oblige(tag + "::ensures::post[f_updated]", zbool(sf.f["f_updated"]) == post["fu"], PP)
        run.oblige(tag + "::ensures::post[g_updated]", zbool(sf.f["g_updated"]) == post["gu"], PP)
        run.oblige(tag + "::ensures::post[f]", z3.Implies(post["fu"], zreal(sf.f["f"]) == post["f"]), PP)
        run.oblige(tag + "::ensures::post[g]", z3.Implies(post["gu"], run.heap[sf.f["g"].ref] == post["g"]), PP)
        run.oblige(tag + "::ensures::post[nfev]",
                   count(run, "fun") - old["cF"] == post["dF_direct"] + post["stencil"], PP)
        ngr = (count(run, "jac") - old["cG"]) if mode == "callable" else (zint(run.ghost["fd_calls"]) - old["fd"])
        run.oblige(tag + "::ensures::post[ngev]", ngr == post["dGrad"], PP)
        for lab, f in sf_inv(run, sf, cfg, base_f, base_g):
            run.oblige(f"{tag}::inv_preserved::{lab}", f, P)
        run.oblige(tag + "::ensures::cache_is_requested_point", run.heap[sf.f["x"].ref] == av, P)
        run.oblige(tag + "::ensures::arg_not_retained", sf.f["x"].ref != arg.ref, P, backend="frame")
        # user code only ever saw copies: the requested array itself was not handed out
        run.oblige(tag + "::ensures::user_got_copy", run.region[arg.ref] == "caller", P, backend="frame")
    return prog


def run_unit(tier="quick", keep_smt=3):
    rep = UnitReport("SF")
    rep.functions |= {"scalar_function.prepare_scalar_function", "scalar_function.ScalarFunction.__init__",
                      "scalar_function.ScalarFunction.fun", "scalar_function.ScalarFunction.grad",
                      "scalar_function.ScalarFunction.fun_and_grad", "scalar_function.ScalarFunction.update_x",
                      "scalar_function.ScalarFunction._update_fun", "scalar_function.ScalarFunction._update_grad",
                      "scalar_function.ScalarFunction.__init__.fun_wrapped",
                      "scalar_function.ScalarFunction.__init__.update_fun",
                      "scalar_function.ScalarFunction.__init__.grad_wrapped",
                      "scalar_function.ScalarFunction.__init__.update_grad"}
    for mode in MODES:
        for method in (None, "fun", "grad", "fun_and_grad"):
            r = run_program(f"SF[{mode},{method}]", make_program(mode, method), keep_smt=1 if keep_smt else 0)
            rep.merge(r)
    return rep


if __name__ == "__main__":
    import time
    t0 = time.time()
    rep = run_unit()
    print("paths", rep.paths, "obligations", len(rep.results), "errors", rep.errors[:3])
    from collections import Counter
    print(Counter(r.status for r in rep.results))
    for r in rep.results:
        if r.status != "proved":
            print("  ", r.status, r.label, r.name, r.info or "", r.site)
    print("covers", Counter(ok for _, ok in rep.covers))
    print("time", round(time.time() - t0, 2))
