"""Proof unit BFGS (B1, UF domain): structural half of C10, the filter contract of C13, and the contracts main relies on.

update_X_and_G            result <=> curvature test of the statement (s.y > eps*y.y); rejected => deques untouched;
                          accepted => appended at the right, OLDEST dropped iff the memory was full; len <= maxcor+1;
                          Inv_XG (all consecutive stored pairs satisfy the curvature condition) preserved.
update_lbfgs_matrices     rejected and not forced => no field of mats written; accepted => every field rewritten from the
                          updated (X, G); theta = y.y / s.y of the NEWEST pair; S, Y = transposed row differences of
                          X, G (column k = pair k, deque order); the returned object is the one passed in.
make_X_and_G_respect_strong_wolfe
                          loop#1 cut by an invariant (symbolic memory size): returns two fresh deques of equal length
                          1..len(X), the newest pair retained, consecutive retained pairs satisfy the curvature test;
                          inputs not written.
Deques have symbolic length (quantified invariants over Array Int Vec with lo/hi bounds).
"""
import z3

from pyvc.sym import (Sym, Arr, Obj, DequeV, SymDeque, MatTerm, Vec, R, I, B, uf, wrap, zreal, zint, zbool)
from pyvc.values import PyExc, PathEnd, Unsupported
from pyvc.harness import session, run_program, cover, UnitReport
from pyvc.loops import Cut
from contracts.common import fresh_vec
from contracts.main import (curv, dq_len, dq_pairs_forall, dq_snapshot, snap_equal, dq_last, c_form_invMfactors, dot,
                            vsub, sign_axioms)

P10 = ("C10",)


def generic_deques(run, maxcor, eps, minlen=1):
    lo = run.fresh("dq_lo", I)
    n = run.fresh("dq_len", I)
    ax = run.fresh("X_a", z3.ArraySort(I, Vec))
    ag = run.fresh("G_a", z3.ArraySort(I, Vec))
    X = run.alloc_deque(SymDeque(ax, lo, lo + n))
    G = run.alloc_deque(SymDeque(ag, lo, lo + n))
    run.assume(z3.And(n >= minlen, n <= maxcor + 1))
    run.assume_q(dq_pairs_forall(run, X, G, lambda a, c, d, e: curv(a, c, d, e, eps)))
    return X, G, (ax, ag, lo, n)


def prog_update_X_and_G(run):
    it, dom = session(run, user_may_raise=False)
    maxcor = run.fresh("maxcor", I)
    run.assume(maxcor >= 1)
    eps = run.fresh("eps", R)
    run.assume(eps >= 0)
    X, G, (ax, ag, lo, n) = generic_deques(run, maxcor, eps)
    xk = fresh_vec(run, "xk", "local")
    gk = fresh_vec(run, "gk", "local")
    xkv, gkv = run.heap[xk.ref], run.heap[gk.ref]
    cover(run, "update_X_and_G::requires_satisfiable")
    tag = "bfgsmats.update_X_and_G"
    res = it.call(it.lookup("bfgsmats.update_X_and_G"), [xk, gk, X, G, Sym(maxcor), Sym(eps)], {})
    spec = curv(xkv, gkv, z3.Select(ax, lo + n - 1), z3.Select(ag, lo + n - 1), eps)
    run.oblige(tag + "::ensures::result_iff_curvature", zbool(res) == spec, P10 + ("C13",))
    cx, cg = run.heap[X.ref], run.heap[G.ref]
    acc = run.branch(zbool(res))
    if not acc:
        run.oblige(tag + "::ensures::rejected_leaves_memory_untouched",
                   isinstance(cx, SymDeque) and z3.eq(cx.a, ax) and z3.eq(cg.a, ag)
                   and z3.eq(z3.simplify(cx.lo), z3.simplify(lo)) and z3.eq(z3.simplify(cx.hi), z3.simplify(lo + n))
                   and z3.eq(z3.simplify(cg.lo), z3.simplify(lo)) and z3.eq(z3.simplify(cg.hi), z3.simplify(lo + n)),
                   P10, backend="structural")
        return
    full = n == maxcor + 1
    run.oblige(tag + "::ensures::appended_at_the_right",
               z3.And(cx.hi == lo + n + 1, cg.hi == lo + n + 1, z3.Select(cx.a, lo + n) == xkv,
                      z3.Select(cg.a, lo + n) == gkv), P10)
    run.oblige(tag + "::ensures::oldest_discarded_iff_full",
               z3.And(cx.lo == z3.If(full, lo + 1, lo), cg.lo == z3.If(full, lo + 1, lo)), P10)
    k = z3.Int("k_old")
    run.oblige(tag + "::ensures::other_entries_unchanged",
               z3.ForAll([k], z3.Implies(z3.And(k >= lo, k < lo + n),
                                         z3.And(z3.Select(cx.a, k) == z3.Select(ax, k),
                                                z3.Select(cg.a, k) == z3.Select(ag, k)))), P10)
    run.oblige(tag + "::ensures::at_most_maxcor_pairs",
               z3.And(dq_len(run, X) <= maxcor + 1, dq_len(run, X) == dq_len(run, G), dq_len(run, X) >= 2), P10)
    run.oblige(tag + "::ensures::stored_pairs_satisfy_curvature",
               dq_pairs_forall(run, X, G, lambda a, c, d, e: curv(a, c, d, e, eps)), P10 + ("C18",))


def prog_update_lbfgs_matrices(force, built=False):
    def prog(run):
        it, dom = session(run, user_may_raise=False)
        it.contracts["bfgsmats.form_invMfactors"] = c_form_invMfactors
        maxcor = run.fresh("maxcor", I)
        run.assume(maxcor >= 1)
        eps = run.fresh("eps", R)
        run.assume(eps >= 0)
        X, G, (ax, ag, lo, n) = generic_deques(run, maxcor, eps, minlen=2 if force else 1)
        xk = fresh_vec(run, "xk", "local")
        gk = fresh_vec(run, "gk", "local")
        nn = run.fresh("n", I)
        run.assume(nn >= 1)
        mats = it.call(it.lookup("bfgsmats.LBFGSB_MATRICES"), [Sym(nn)], {})
        if built:
            # a matrix object in an arbitrary (previously built) state: every field an arbitrary array
            for k2 in ("S", "Y", "D", "L", "W"):
                mats.f[k2] = fresh_vec(run, "old_" + k2, "local")
                run.ghost.setdefault("ndim", {})[mats.f[k2].ref] = 2
            f0_, f1_ = fresh_vec(run, "old_F0", "local"), fresh_vec(run, "old_F1", "local")
            run.ghost["ndim"][f0_.ref] = run.ghost["ndim"][f1_.ref] = 2
            mats.f["invMfactors"] = (f0_, f1_)
            mats.f["theta"] = Sym(run.fresh("old_theta", R))
        old_fields = dict(mats.f)
        tag = f"bfgsmats.update_lbfgs_matrices[force={force},{'built' if built else 'initial'}]"
        res = it.call(it.lookup("bfgsmats.update_lbfgs_matrices"),
                      [xk, gk, X, G, Sym(maxcor), mats, force], dict(eps=Sym(eps), is_check_factorization=False))
        run.oblige(tag + "::ensures::returns_the_object_passed_in", res is mats, P10, backend="structural")
        changed = [k2 for k2 in old_fields if mats.f.get(k2) is not old_fields[k2]]
        accepted_len = run.entails(dq_len(run, X) == n + 1) or run.entails(dq_len(run, X) == n + 0) is False
        was_accepted = not z3.eq(run.heap[X.ref].a, ax)
        if not was_accepted and not force:
            run.oblige(tag + "::ensures::rejected_leaves_matrix_untouched", not changed, P10, backend="structural",
                       info=f"fields rewritten: {changed}")
            return
        run.oblige(tag + "::ensures::every_field_rebuilt",
                   set(changed) == {"S", "Y", "D", "L", "W", "invMfactors", "theta"}, P10 + ("C06", "C13"),
                   backend="structural", info=f"fields rewritten: {sorted(changed)}")
        cx, cg = run.heap[X.ref], run.heap[G.ref]
        xl, xp = z3.Select(cx.a, cx.hi - 1), z3.Select(cx.a, cx.hi - 2)
        gl, gp = z3.Select(cg.a, cg.hi - 1), z3.Select(cg.a, cg.hi - 2)
        y, s = vsub(gl, gp), vsub(xl, xp)
        th = mats.f.get("theta")
        run.oblige(tag + "::ensures::theta_is_yy_over_sy_of_newest_pair",
                   zreal(th) == uf("fdiv", R, R, R)(dot(y, y), dot(s, y)) if isinstance(th, (Sym, float, int))
                   else False, P10)

        def is_T_diff(v, dq):
            c = run.heap.get(v.ref) if isinstance(v, Arr) else None
            return (isinstance(c, MatTerm) and c.kind == "T" and isinstance(c.args[0], MatTerm)
                    and c.args[0].kind == "diffstack" and snap_equal(c.args[0].args[0], dq_snapshot(run, dq)))
        run.oblige(tag + "::ensures::S_is_transposed_diff_of_X", is_T_diff(mats.f.get("S"), X), P10 + ("C06", "C13"),
                   backend="structural")
        run.oblige(tag + "::ensures::Y_is_transposed_diff_of_G", is_T_diff(mats.f.get("Y"), G), P10 + ("C06", "C13"),
                   backend="structural")
    return prog


def prog_make_wolfe(shared):
    def prog(run):
        it, dom = session(run, user_may_raise=False)
        eps = run.fresh("eps", R)
        run.assume(eps >= 0)
        lo = run.fresh("dq_lo", I)
        n = run.fresh("dq_len", I)
        ax = run.fresh("X_a", z3.ArraySort(I, Vec))
        ag = run.fresh("G_a", z3.ArraySort(I, Vec))
        X = run.alloc_deque(SymDeque(ax, lo, lo + n), "caller")
        G = run.alloc_deque(SymDeque(ag, lo, lo + n), "caller")
        run.assume(n >= 1)
        run.ghost["base_pc"] = list(run.pc)
        c = dict(X=X, G=G, ax=ax, ag=ag, lo=lo, n=n, eps=eps)

        # hypothesis of the identity clause: every consecutive input pair satisfies the curvature condition.
        # It is represented by a boolean constant H of which only instances (forall-elimination) are ever assumed:
        # whatever is proved under H holds for the real hypothesis.
        hyp = z3.Bool("H_all_input_pairs_valid")

        def hyp_instance(idx):
            return z3.Implies(z3.And(hyp, idx >= lo, idx < lo + n - 1),
                              curv(z3.Select(ax, idx + 1), z3.Select(ag, idx + 1), z3.Select(ax, idx),
                                   z3.Select(ag, idx), eps))

        def same_suffix(dqx, dqg, count):
            """the deques hold exactly the last `count` input pairs, in order"""
            cx, cg = run.heap[dqx.ref], run.heap[dqg.ref]
            if isinstance(cx, list):
                xs = [run.heap[e.ref] for e in cx]
                gs = [run.heap[e.ref] for e in cg]
                return z3.And(z3.IntVal(len(xs)) == count,
                              *[z3.And(xs[j] == z3.Select(ax, lo + n - len(xs) + j),
                                       gs[j] == z3.Select(ag, lo + n - len(xs) + j)) for j in range(len(xs))])
            j = z3.Int("j_same")
            return z3.And(cx.hi - cx.lo == count, cg.hi - cg.lo == count, cx.lo == cg.lo,
                          z3.ForAll([j], z3.Implies(z3.And(j >= 0, j < count),
                                                    z3.And(z3.Select(cx.a, cx.lo + j) == z3.Select(ax, lo + n - count + j),
                                                           z3.Select(cg.a, cg.lo + j) == z3.Select(ag, lo + n - count + j)))))

        def inv(interp, env, phase):
            _X, _G = env.get("_X"), env.get("_G")
            i = zint(env.get("__i"))
            out = []
            out.append(("identity_on_valid_history", z3.Implies(hyp, same_suffix(_X, _G, i + 1)), ("C13",)))
            if phase == "assume":
                # the instance of the hypothesis for the pair examined by this iteration (k = ncor - i - 1)
                out.append(("hyp_instance", hyp_instance(lo + n - 2 - i), ("C13",)))
            m = dq_len(run, _X)
            out.append(("lengths", z3.And(m >= 1, m == dq_len(run, _G), m <= i + 1), ("C13",)))
            out.append(("ncor", zint(env.get("ncor")) == n - 1, ("C13",)))
            out.append(("newest_retained", z3.And(dq_last(run, _X) == z3.Select(ax, lo + n - 1),
                                                  dq_last(run, _G) == z3.Select(ag, lo + n - 1)), ("C13",)))
            out.append(("retained_pairs_satisfy_curvature",
                        dq_pairs_forall(run, _X, _G, lambda a, cc, d, e: curv(a, cc, d, e, eps)), ("C13", "C10")))
            # the oldest retained element is one of the input pairs, at an index not yet visited
            cx, cg = run.heap[_X.ref], run.heap[_G.ref]
            first_x = run.heap[cx[0].ref] if isinstance(cx, list) else z3.Select(cx.a, cx.lo)
            first_g = run.heap[cg[0].ref] if isinstance(cg, list) else z3.Select(cg.a, cg.lo)
            j = z3.Int("j_src")
            out.append(("retained_come_from_input",
                        z3.Exists([j], z3.And(j >= lo + n - 1 - i, j <= lo + n - 1, first_x == z3.Select(ax, j),
                                              first_g == z3.Select(ag, j))), ("C13",)))
            return out

        def havoc(interp, env):
            m = run.fresh("w_len", I)
            l2 = run.fresh("w_lo", I)
            env.set("_X", run.alloc_deque(SymDeque(run.fresh("wX", z3.ArraySort(I, Vec)), l2, l2 + m)))
            env.set("_G", run.alloc_deque(SymDeque(run.fresh("wG", z3.ArraySort(I, Vec)), l2, l2 + m)))
            return ["_X", "_G", "i", "k"]
        it.loops[("bfgsmats.make_X_and_G_respect_strong_wolfe", 1)] = Cut(inv, havoc, shared)
        cover(run, "make_X_and_G_respect_strong_wolfe::requires_satisfiable")
        tag = "bfgsmats.make_X_and_G_respect_strong_wolfe"
        res = it.call(it.lookup(tag), [X, G, Sym(eps)], dict(logger=None))
        nX, nG = res
        m = dq_len(run, nX)
        run.oblige(tag + "::ensures::lengths", z3.And(m >= 1, m <= n, m == dq_len(run, nG)), ("C13",))
        run.oblige(tag + "::ensures::newest_retained",
                   z3.And(dq_last(run, nX) == z3.Select(ax, lo + n - 1), dq_last(run, nG) == z3.Select(ag, lo + n - 1)),
                   ("C13",))
        run.oblige(tag + "::ensures::retained_pairs_satisfy_curvature",
                   dq_pairs_forall(run, nX, nG, lambda a, cc, d, e: curv(a, cc, d, e, eps)), ("C13", "C10"))
        run.oblige(tag + "::ensures::identity_on_valid_history", z3.Implies(hyp, same_suffix(nX, nG, n)), ("C13",))
        run.oblige(tag + "::ensures::fresh_deques", nX.ref not in (X.ref, G.ref) and nG.ref not in (X.ref, G.ref)
                   and run.region[nX.ref] == "local" and run.region[nG.ref] == "local", ("C13", "C14"), backend="frame")
        cx, cg = run.heap[X.ref], run.heap[G.ref]
        run.oblige(tag + "::ensures::inputs_untouched", isinstance(cx, SymDeque) and z3.eq(cx.a, ax)
                   and z3.eq(cg.a, ag), ("C13", "C14"), backend="frame")
    return prog


def run_unit(tier="quick", keep_smt=1):
    rep = UnitReport("BFGS")
    rep.functions |= {"bfgsmats.update_X_and_G", "bfgsmats.is_update_X_and_G", "bfgsmats.update_lbfgs_matrices",
                      "bfgsmats.make_X_and_G_respect_strong_wolfe", "bfgsmats.LBFGSB_MATRICES.__init__"}
    rep.merge(run_program("BFGS[update_X_and_G]", prog_update_X_and_G, keep_smt=keep_smt))
    for force in (False, True):
        for built in (False, True):
            rep.merge(run_program(f"BFGS[update_lbfgs_matrices,force={force},built={built}]",
                                  prog_update_lbfgs_matrices(force, built), keep_smt=keep_smt))
    rep.merge(run_program("BFGS[make_wolfe]", prog_make_wolfe({}), keep_smt=keep_smt))
    return rep


if __name__ == "__main__":
    import time
    from collections import Counter
    t0 = time.time()
    rep = run_unit()
    print("paths", rep.paths, "obligations", len(rep.results), "errors", rep.errors[:3])
    print(Counter(r.status for r in rep.results))
    for r in rep.results:
        if r.status != "proved":
            print("  ", r.status, r.label, r.name, r.info or "", r.site)
    print("covers", Counter(ok for _, ok in rep.covers), "time", round(time.time() - t0, 1))
