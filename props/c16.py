"""C16 - finite-difference modes work at the bounds and agree with exact gradients.

Decided deductively: 'never raises because an iterate touches a bound' <=> the precondition of approx_derivative
(lb <= base point <= ub, else ValueError) holds at its only call site; that is the `requires inbox` of
ScalarFunction.grad/fun_and_grad, an obligation at each of their call sites in main and line_search (B1, with np.clip's
axioms).  Mode dispatch (None -> 2-point with absolute step eps; strings -> relative step, epsilon None; bounds
forwarded) and 'nfev counts every evaluation including stencil points': unit SF.  Stencil points inside the box:
assumed contract of approx_derivative.  Accuracy w.r.t. exact-gradient solutions: bounded stand-in only.
"""
from props._mainbased import main_property, selector
from units import sf_unit, ls_unit, flow_unit

PID = "C16"


def check(tier, seed):
    sf = sf_unit.run_unit(tier)
    ls = ls_unit.run_unit(tier)
    fl = flow_unit.run_unit(tier)       # the finite-difference set-up of one solve is not shared with another one
    return main_property(
        PID, tier, seed, "other",
        "precondition of approx_derivative proved at every call site (UF + clip axioms); dispatch and counting from "
        "unit SF; accuracy clause bounded.",
        extra_reports=[(sf, lambda r: "C16" in r.props or "g_current" in r.name or "nfev_counts" in r.name),
                       (ls, lambda r: "INBOX" in r.props),
                       (fl, lambda r: "no_global_state" in r.name)],
        extra_assumptions=["assumed contract of approx_derivative (stencil inside the bounds; ValueError iff the base "
                           "point is outside)", "accuracy of finite-difference solutions: bounded stand-in only"],
        what="clauses checked natively: FD runs with active bounds never raise; objective value close to the "
             "exact-gradient solution")
