"""C11 - line-search steps are feasible, within budget and strictly downhill.

Unit LS (B1): the contract of the real line_search for every DCSRCH behaviour and every max_iter >= 1: evaluation points
are clip(x0 + a*d) hence inside the box (obligations at the ScalarFunction call sites), at most max_iter objective
evaluations (callable gradient), result None or 0 < step <= max feasible step with a strictly lower objective value.
Unit KERNEL (B2, A-ELEM): max_allowed_steplength is feasible and maximal in exact arithmetic.
"""
from checks.common import Outcome, finish
from props._mainbased import selector, attach_standin, native_replay_for
from units import ls_unit, kernels_unit

PID = "C11"


def check(tier, seed):
    out = Outcome(PID, tier, seed, "proof")
    out.checker_cmd = f"python3-vt checks/run.py {PID} --tier {tier}"
    ls = ls_unit.run_unit(tier)
    out.add_report(ls, selector(PID))
    n_ls = len(out.selected)
    kn = kernels_unit.run_unit(tier)
    out.add_report(kn, selector(PID))
    out.labels = {"proved": n_ls, "proved_at_shape": len(out.selected) - n_ls, "bounded": 0}
    out.assumptions = ["assumed contract of scipy DCSRCH._iterate", "np.clip axioms (result inside [lb,ub] for lb<=ub, "
                       "identity inside); A-NAN", "IEEE fact x + 0*d == x",
                       "max_allowed_steplength: real arithmetic, shapes n<=2 (quick) / 3 (thorough); component-wise",
                       "ScalarFunction methods applied through their contract (unit SF)"]
    out.explanation = "line_search contract proved in the UF domain with a loop invariant; step-length kernel at shape."
    attach_standin(out, PID, tier, seed, what="clauses checked natively on line_search: evaluation points inside the "
                   "box, evaluations <= cap, None or step in (0, stpmax] with strictly lower objective")
    return finish(out, native_replay_for(PID))
