"""C05 - result coherence: fun and jac belong to x; counters equal calls made.

Loop invariant conjuncts f0_of_x / grad_of_x / sf::nfev_counts / sf::ngev_counts (bit-for-bit: equality of terms in the
UF domain is equality of bits), the same conjunction as an obligation at the callback site and at every return;
ScalarFunction's counting invariant (unit SF).  Restart: counters = checkpoint's + calls since.
"""
from props._mainbased import main_property, selector
from units import sf_unit

PID = "C05"


def check(tier, seed):
    sf = sf_unit.run_unit(tier)
    return main_property(
        PID, tier, seed, "proof",
        "result/callback-state clauses + loop invariant in the UF domain (z3); ScalarFunction contract (unit SF).",
        extra_reports=[(sf, selector(PID))],
        what="clauses checked natively: fun/jac recomputed at x bit-for-bit, nfev/njev against counted calls, restarts")
