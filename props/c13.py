"""C13 - redefining the objective on the fly acts as a restart on the new objective.

Proved (B1): the filter contract of make_X_and_G_respect_strong_wolfe (unit BFGS: order-preserving retention, newest
kept, consecutive retained pairs satisfy the curvature test, symbolic memory size); in main with an update function:
after every call of the update function the rewritten history is filtered before it can be used or returned (loop
invariant XG_curvature / XG_len and the hess_inv clauses at every exit and callback site hold for the REWRITTEN G);
the matrices are rebuilt from the deques (unit BFGS: every_field_rebuilt).
Bounded (R): the identity clause (an update function returning its inputs leaves the run bit-for-bit unchanged) and the
'equals a restart on the new objective' clause are checked natively only.
"""
from props._mainbased import main_property, selector
from units import bfgs_unit

PID = "C13"


def check(tier, seed):
    b1 = bfgs_unit.run_unit(tier)
    return main_property(
        PID, tier, seed, "other",
        "filter contract + main's invariants/exit clauses under an arbitrary update function proved (UF domain); the "
        "identity-bisimulation and restart-equivalence clauses are bounded (native runs).",
        extra_reports=[(b1, selector(PID))],
        extra_assumptions=["update_fun_def returns a deque of the same length as the one it received",
                           "identity / restart-equivalence clauses: bounded stand-in only (not proved)"],
        what="clauses checked natively: identity update function => bit-identical run (incl. message); pairs of the "
             "result are differences of the rewritten gradients with s.y > 0")
