"""C03 - the objective never increases from one accepted iterate to the next.

line_search ensures `None or Fs(trial(result)) < f0` (unit LS, invariant cut: every maxls / evaluation budget, DCSRCH
abstract); main: invariant mono (f0 <= f at the start), f0_of_x, and at every callback site / return: fun <= previous
accepted value and <= starting value; a failed line search leaves (x, f0, grad) untouched (same path, no assignment).
"""
from props._mainbased import main_property, selector
from units import ls_unit

PID = "C03"


def check(tier, seed):
    ls = ls_unit.run_unit(tier)
    return main_property(
        PID, tier, seed, "proof",
        "contract of line_search proved against its body; main's invariant + exit clauses from that contract (UF, z3).",
        extra_reports=[(ls, selector(PID))],
        extra_assumptions=["premise of the property: fixed objective (update_fun_def is None)",
                           "assumed contract of scipy DCSRCH._iterate (does not call phi/derphi; step in [0, stpmax] "
                           "unless ERROR)"],
        what="clauses checked natively: f at x0, at callback states and at the result is non-increasing")
