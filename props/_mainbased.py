"""Shared driver for the properties whose obligations come (partly) from proof unit MAIN."""
import os
import pickle
import time

from checks.common import Outcome, finish, VERIF
from contracts.main import CALLEE_CONTRACTS_USED


def frame_selected(r, pid):
    if pid == "C14":
        return r.name in ("frame::no_write_caller_owned", "frame::no_write_global")
    if pid == "C07":
        return r.name == "frame::no_write_escaped" and "ESC:callback" in r.props
    if pid == "C18":
        return r.name == "frame::history_not_aliased"
    return False


def selector(pid):
    def sel(r):
        return pid in r.props or frame_selected(r, pid)
    return sel


_CACHE = {}


def main_report(tier, pid):
    """Explore MAIN (all configurations) and discharge the obligations that constitute property `pid`."""
    from units import main_unit
    return main_unit.run_unit(tier, want=pid)


MAIN_ASSUMPTIONS = [
    "callee contracts used at call sites of minimize_lbfgsb (each proved in its own unit, the numeric kernels only at "
    "fixed shapes): " + "; ".join(CALLEE_CONTRACTS_USED),
    "ScalarFunction.fun/grad/fun_and_grad are applied through their contract (post-state specification proved in unit SF)",
    "x0 is a 1-D float64 array, bounds an (n,2) array or None, args=(), finite_diff_rel_step=None, logger=None, "
    "is_check_factorization=False, maxcor>=1, maxiter>=0, maxfun>=1, maxls>=1, eps_SY>=0",
    "restart: the checkpoint is well formed (fun/jac are the user's values at checkpoint.x, stored pairs satisfy the "
    "curvature condition) and was produced without gradient scaler",
    "user-supplied update_fun_def returns a deque of the same length as the one it was given",
    "termination is not proved (partial correctness: every clause holds whenever the call returns or raises)",
]


def native_scenarios(props, runs, seed, timeout=3000, procs=8):
    """Bounded native stand-in / replay oracle: run native/scenarios.py on the real code (split over processes)."""
    import json
    import subprocess
    from checks.common import REPO, NATIVE_PY
    env = dict(os.environ, PYTHONPATH=REPO, OMP_NUM_THREADS="1", OPENBLAS_NUM_THREADS="1")
    per = max(1, runs // procs)
    ps = []
    for k in range(procs):
        cmd = [NATIVE_PY, "-W", "ignore", os.path.join(VERIF, "native", "scenarios.py"), "--props", ",".join(props),
               "--runs", str(per), "--seed", str(seed * 1000 + k)]
        ps.append(subprocess.Popen(cmd, stdout=subprocess.PIPE, stderr=subprocess.PIPE, text=True, env=env))
    tot = {"runs": 0, "nontrivial": 0, "failures": [], "samples": [], "harness_errors": []}
    for p in ps:
        try:
            so, se = p.communicate(timeout=timeout)
            d = json.loads(so.strip().splitlines()[-1])
        except Exception as e:
            tot["harness_errors"].append(f"{type(e).__name__}: {e}")
            continue
        tot["runs"] += d.get("runs", 0)
        tot["nontrivial"] += d.get("nontrivial", 0)
        tot["failures"].extend(d.get("failures", []))
        tot["samples"].extend(d.get("samples", [])[:1])
        tot["harness_errors"].extend(d.get("harness_errors", []))
    return tot


def attach_standin(out, pid, tier, seed, props=None, quick_runs=240, thorough_runs=6000, what=""):
    runs = quick_runs if tier == "quick" else thorough_runs
    d = native_scenarios(props or [pid], runs, seed)
    out.standin = {"label": "bounded", "evaluations": d["runs"], "distinct_nontrivial": d["nontrivial"],
                   "rule": "bounded run-time interpretation of the property's clauses on the real code (native/"
                           "scenarios.py): seeded problem families (QP, QP+quartic, QP+softplus, Rosenbrock, oscillating, "
                           "badly scaled; n 1..5; finite/one-sided/infinite/degenerate boxes; starts on faces/vertices) "
                           "x random options; every case comes from its own generator seed (distinct by construction); "
                           "non-trivial = the run performed at least one iteration / the scenario reached its comparison "
                           "(counted by the harness); " + what,
                   "samples": d["samples"][:3], "failures": len([f for f in d["failures"] if f["property"] == pid])}
    if d["harness_errors"]:
        out.extra["standin_harness_errors"] = d["harness_errors"][:5]
    seen = set()
    for f in d["failures"]:
        if f["property"] != pid:
            continue
        key = f["what"]
        if key in seen:
            continue
        seen.add(key)
        out.standin_failures.append({"name": f"native::{pid}::{f['scenario']}", "label": f["scenario"],
                                     "info": f["what"], "detail": f})
    return d


def native_replay_for(pid):
    """Replay oracle for refuted MAIN obligations of property pid: search the native clause for a failing input."""
    cache = {}

    def replay(r):
        if "doc" not in cache:
            d = native_scenarios([pid], 480, 7)
            fs = [f for f in d["failures"] if f["property"] == pid]
            cache["doc"] = {"confirmed": bool(fs), "how": "native scenario search (native/scenarios.py, 480 runs) for "
                            "a failing input of the same property's run-time clause", "native_runs": d["runs"],
                            "failing_inputs": fs[:2]}
        return cache["doc"]
    return replay


def main_property(pid, tier, seed, level, explanation, extra_reports=(), extra_assumptions=(), standin=True,
                  standin_props=None, labels=None, what=""):
    out = Outcome(pid, tier, seed, level)
    out.checker_cmd = f"python3-vt checks/run.py {pid} --tier {tier}"
    rep = main_report(tier, pid)
    out.add_report(rep, selector(pid))
    for r2, sel in extra_reports:
        out.add_report(r2, sel)
    out.assumptions = list(MAIN_ASSUMPTIONS) + list(extra_assumptions)
    out.explanation = explanation
    n_ok = len([r for r in out.selected if r.status == "proved"])
    out.labels = labels or {"proved": n_ok, "proved_at_shape": 0, "bounded": 0}
    if standin:
        attach_standin(out, pid, tier, seed, standin_props, what=what)
    return finish(out, native_replay_for(pid))
