"""C02 - every evaluated, reported and returned point lies inside the box, exactly.

Site completeness + site obligations (B1): the user's objective/gradient are reached only through ScalarFunction, whose
call sites in main and line_search carry the obligation `lb <= point <= ub`; these are discharged from np.clip's axiom
(clip2bounds at the start, clip(x0 + a*d) for every trial point, the same expression for the new iterate), the loop
invariant inbox_x and the callee contracts (Cauchy point / subspace point inside the box); callback xk/state.x and the
returned x carry the same obligation.  Finite-difference stencil points: assumed contract of approx_derivative given a
feasible base point.  Degenerate sides: lb == ub and lb <= x <= ub force x == lb (exact comparisons).
"""
from props._mainbased import main_property, selector
from units import ls_unit, kernels_unit

PID = "C02"


def check(tier, seed):
    ls = ls_unit.run_unit(tier)
    kn = kernels_unit.run_unit(tier)
    return main_property(
        PID, tier, seed, "proof",
        "inbox obligations at every evaluation / report / return site, UF domain with the axioms of np.clip (exact: "
        "clip returns one of its three arguments component-wise).",
        extra_reports=[(ls, selector(PID)), (kn, selector(PID))],
        extra_assumptions=["np.clip(v, lb, ub) with lb <= ub and no NaN returns a point with lb <= . <= ub exactly",
                           "approx_derivative keeps its stencil inside the bounds it is given (assumed contract)",
                           "get_cauchy_point / subspace_minimization return points inside the box (units CAUCHY/"
                           "SUBSPACE at fixed shapes)"],
        what="clauses checked natively: every fun/jac call, callback xk and the result satisfy lb <= x <= ub with exact "
             "comparisons; lb == ub components never move")
