"""C18 - the returned inverse-Hessian operator is built from genuine curvature pairs.

At every construction site of LbfgsInvHessProduct (early return, callback state, final return): sk/yk are
diff(array(X)), diff(array(G)) of the *current* deques in this order, rows <= maxcor, every pair has s.y > 0 (from the
invariant XG_curvature and the IEEE sign axioms); invariant XG_genuine: every stored gradient is the (scaled) gradient
at the stored point; stored arrays are never written in place (history_not_aliased).
"""
from props._mainbased import main_property, selector
from units import kernels_unit, bfgs_unit

PID = "C18"


def check(tier, seed):
    kn = kernels_unit.run_unit(tier)
    bf = bfgs_unit.run_unit(tier)
    return main_property(
        PID, tier, seed, "proof",
        "construction-site clauses + deque invariant (quantified over a symbolic-length deque), UF domain, z3; "
        "extract_hess_inv_diag: result[i] == H[i,i] for a dense linear operator at n <= 3 (quick) / 6 (thorough).",
        extra_reports=[(kn, selector(PID)),
                       # objective redefinitions: the pairs come from the curvature filter and from update_X_and_G
                       (bf, lambda r: "make_X_and_G_respect_strong_wolfe" in r.name or "C18" in r.props)],
        extra_assumptions=["sign axioms of IEEE arithmetic without NaN: dot(v,v) >= 0; a,b >= 0 => a*b >= 0",
                           "restored (restart) elements: bit-exactness replaced by C06's real-arithmetic restore contract",
                           "chronological order of the stored points is not expressed (append-at-the-right / drop-at-the-"
                           "left is checked structurally by the deque model)",
                           "SPD of the operator from positive-curvature pairs: standard two-loop lemma (SciPy's class)",
                           "extract_hess_inv_diag: matvec(v) == todense() @ v (assumed, conformance-tested); fixed shapes"],
        what="clauses checked natively: pairs <= maxcor, are differences of visited iterates/gradients, s.y > 0")
