"""C08 - the Cauchy point is the first local minimiser along the projected path.

Unit CAUCHY (B2, proved-at-shape): the real get_cauchy_point for all real x, g, boxes (every finite/infinite pattern,
every sign/position pattern) at n <= 2 (quick) / 3 (thorough), memory without stored pair (B = theta I, closed-form
minimiser clip(x - g/theta)).  Memory with pairs and n <= 10: bounded native stand-in against an independent
piecewise search on the dense model.
"""
from checks.common import Outcome, finish
from props._mainbased import attach_standin, native_replay_for
from units import cauchy_unit

PID = "C08"


def check(tier, seed):
    out = Outcome(PID, tier, seed, "other")
    out.checker_cmd = f"python3-vt checks/run.py {PID} --tier {tier}"
    rep = cauchy_unit.run_unit(tier)
    out.add_report(rep, lambda r: "C08" in r.props)
    out.labels = {"proved": 0, "proved_at_shape": len([r for r in out.selected if r.status == "proved"]), "bounded": 0}
    out.assumptions = ["A-REAL: machine floats treated as mathematical reals",
                       "shapes: n <= 2 with every bound pattern (thorough: plus n = 3 without finite bounds; a full n = 3 "
                       "run does not fit the budget), memory m = 0 (W = 0, theta > 0 symbolic)",
                       "A-SAFEGUARD: the Fortran trick f'' = max(f'', 1e-30 f''_0) is inactive (non-zero gradient "
                       "components within a factor 1e14 of each other)",
                       "premises of the property: feasible x, non-zero projected gradient, theta > 0",
                       "ghost reads of the locals t, sorted_t_idx for the breakpoint clauses",
                       "memory with stored pairs (m >= 1) and n up to 10: bounded native stand-in only"]
    out.explanation = ("postconditions of the real get_cauchy_point discharged by z3 (NRA) for all real inputs at the "
                       "stated shapes: proved-at-shape, counted as bounded in shape; plus a bounded native comparison "
                       "with memory.")
    out.extra["shapes"] = {"n": [1, 2] if tier == "quick" else [1, 2, "3 (unbounded pattern only)"], "memory_pairs": [0]}
    attach_standin(out, PID, tier, seed, quick_runs=400, thorough_runs=20000,
                   what="native: real get_cauchy_point with 0..5 stored pairs, n 1..10, against an independent "
                        "piecewise-quadratic search on the dense model (first local minimiser, pinning, decrease, aux)")
    return finish(out, native_replay_for(PID))
