"""C01 - convex box-constrained problems are solved to a first-order (KKT) point.

The statement is global convergence of a floating-point iteration: no per-function postcondition implies it and no
inductive invariant a solver can check yields 'eventually projgr <= gtol'.  The deductive family does not decide C01.
What this check does: a BOUNDED run-time contract (never counted as proved) - the postcondition as the property words
it, evaluated on the property's own families - and it reports, as supporting obligations only, the proved necessary
conditions whose violation is the known cause of stalls (Cauchy breakpoints sorted/positive, descent, strict decrease).
"""
from checks.common import Outcome, finish
from props._mainbased import attach_standin, native_replay_for
from units import cauchy_unit, subspace_unit

PID = "C01"


def check(tier, seed):
    out = Outcome(PID, tier, seed, "exploration")
    out.checker_cmd = f"python3-vt checks/run.py {PID} --tier {tier}"
    if tier != "quick":
        for rep, key in ((cauchy_unit.run_unit("quick"), "C01"), (subspace_unit.run_unit("quick"), "C01")):
            rep2 = rep
            out.reports.append(rep2)
            out.supporting.extend(r for r in rep2.results if key in r.props)
        out.extra["supporting_obligations"] = {"n": len(out.supporting),
                                               "discharged": len([r for r in out.supporting if r.status == "proved"])}
    out.assumptions = ["bounded stand-in only: seeded generated problems, not a proof",
                       "tolerance: projected gradient <= 10*max(gtol, sqrt(2 L eps max(1,|f|))) - the level at which "
                       "a decrease of the objective can no longer be observed in floating point"]
    out.explanation = ("no proof of the convergence claim: bounded run-time contract on generated convex box problems; "
                       "plus one proved necessary condition (abnormal termination only after the memory was reset)")
    attach_standin(out, PID, tier, seed, quick_runs=2400, thorough_runs=40000,
                   what="strictly convex box QP (cond <= 1e4), QP+quartic, QP+softplus, n 1..12, maxcor 1..10, ftol=0, "
                        "ample budgets: recomputed projected gradient at the returned point")
    # supporting obligation that is cheap enough for every run: 'abnormal termination only after the memory was reset'
    from props._mainbased import main_report, selector
    rep = main_report(tier, PID)
    out.add_report(rep, selector(PID))
    out.extra["proved_necessary_conditions"] = {"n": len(out.selected),
                                                "discharged": len([r for r in out.selected if r.status == "proved"])}
    return finish(out, native_replay_for(PID))
