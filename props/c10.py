"""C10 - the limited-memory matrix is the BFGS matrix of the stored pairs and stays SPD.

Structural half (P, all histories, symbolic memory size): unit BFGS (update_X_and_G / update_lbfgs_matrices contracts)
+ the deque invariant of main's loop (XG_len, XG_curvature).  Numeric half (S, proved-at-shape, counted as bounded):
unit BFGSNUM - the real update_lbfgs_matrices/form_invMfactors/bmv at the shapes of the grid, plus the mathematical
lemma (compact form == dense recursion, secant, symmetry, SPD) machine-checked at small shapes and cited beyond.
"""
from props._mainbased import main_property, selector
from units import bfgs_unit, bfgsnum_unit

PID = "C10"


def check(tier, seed):
    b1 = bfgs_unit.run_unit(tier)
    b2 = bfgsnum_unit.run_unit(tier)
    n1 = len([r for r in b1.results if "C10" in r.props])
    n2 = len(b2.results)
    return main_property(
        PID, tier, seed, "other",
        "structural contracts proved for every history and memory size (UF domain, quantified deque invariants); numeric "
        "meaning of the matrices proved for all real inputs at the shapes (n, pairs, maxcor) of the grid "
        "(quick: n<=2, 1 pair; thorough: n<=3) - labelled proved-at-shape; Byrd-Nocedal-Schnabel Thm 2.3 checked in the "
        "fraction field at (n,pairs) in {(1,1),(2,1),(3,1)} (+(1,2),(2,2) thorough) and cited beyond.",
        extra_reports=[(b1, selector(PID)), (b2, lambda r: True)],
        extra_assumptions=["A-REAL: machine floats treated as mathematical reals in unit BFGSNUM",
                           "Byrd-Nocedal-Schnabel (1994) Thm 2.3 beyond the machine-checked shapes (cited lemma)",
                           "scipy.linalg.cholesky / solve_triangular models (exact Cholesky factor; triangular solve "
                           "reading one triangle only)"],
        standin=False, labels={"proved": n1, "proved_at_shape": n2, "bounded": 0})
