"""C14 - runs are deterministic, isolated from each other and do not touch their inputs.

(a) frame: every in-place write executed on any path of minimize_lbfgsb targets memory allocated by the call
(obligations frame::no_write_caller_owned / no_write_global; kernels: their units); (b)-(d) unit FLOW: no mutable
global state, no nondeterminism source, logging (iprint, logger) never flows into a non-logging sink.
"""
from props._mainbased import main_property

PID = "C14"


def check(tier, seed):
    from units import flow_unit
    fl = flow_unit.run_unit(tier)
    return main_property(
        PID, tier, seed, "proof",
        "ownership/frame obligations of the heap model on every path + syntactic flow analysis (unit FLOW).",
        extra_reports=[(fl, lambda r: "C14" in r.props)],
        extra_assumptions=["thread-safety of numpy/BLAS internals; interleavings are not enumerated: a call whose "
                           "footprint is local memory + read-only caller memory commutes with any other such call"],
        what="clauses checked natively: inputs bit-identical after the call (incl. read-only checkpoints), same result "
             "with logging on and with a nested optimisation inside the objective")
