"""C04 - the termination report is truthful and the run budgets are respected.

Postconditions of minimize_lbfgsb taken from the statement (documented message; each message implies its fact;
success False iff abnormal; nit/nfev bounds; stop-criterion callables invoked once) as `ensures` at every return,
proved from the loop invariant (nit_bound, nfev_bound, state_msg, calls_once) for all iteration counts and all
combinations of checkpoint / ftarget kind / gtol kind / gradient mode / scaler / update function / callback.
"""
from props._mainbased import main_property

PID = "C04"


def check(tier, seed):
    return main_property(
        PID, tier, seed, "proof",
        "ensures of minimize_lbfgsb at every return + loop invariant conjuncts, UF domain, z3; all configurations; "
        "line-search evaluation budget from the contract of line_search (unit LS).",
        extra_assumptions=["A-NAN: a NaN projected gradient falls through every branch of the final classification"],
        what="clauses checked natively: documented message, message implies its fact, budgets, callables called once")
