"""C06 - restarting from a returned result continues the run as if it had not stopped.

Restore contract (unit KERNEL, B2, real arithmetic, A-ELEM n=1 complete in n; pairs 1..4 x maxcor 1..4): the deques
rebuilt from (x, jac, sk, yk) are the most recent points of the history in chronological order, checkpoint untouched.
Provenance on the restart path (unit MAIN, B1): counters/f0/grad are the checkpoint's; a restart that performs no
iteration returns the checkpoint's pairs; the matrices are rebuilt from the deques (unit BFGS: every field rewritten).
Lemma C06::same_continuation (hand): the loop body is a deterministic function of (x, f0, grad, X, G, mats, counters).
Bounded (R): end-to-end comparison of the next iterate after a restart with the uninterrupted run.
"""
from props._mainbased import main_property, selector
from units import kernels_unit, bfgs_unit

PID = "C06"


def check(tier, seed):
    kn = kernels_unit.run_unit(tier)
    bf = bfgs_unit.run_unit(tier)
    return main_property(
        PID, tier, seed, "other",
        "restore contract proved at shape (real arithmetic), restart provenance proved (UF); 'same continuation' by "
        "determinism lemma + bounded native comparison.",
        extra_reports=[(kn, selector(PID)), (bf, selector(PID))],
        extra_assumptions=["A-REAL in the restore contract (the statement says 'up to rounding')",
                           "lemma C06::same_continuation is a hand argument resting on C14's frame/determinism obligations"],
        what="clauses checked natively: restart from a maxiter-stopped run reproduces the uninterrupted run's next "
             "iterates (relative 1e-9), chains of restarts, reduced maxcor keeps the most recent pairs")
