"""C20 - failures of user callables surface unchanged and leave nothing behind.

Every user-callable call site has an exceptional outcome with a symbolic exception class; the executor explores each
`try` with that class symbolic.  Obligations: a normal return never follows a user exception on the same path; on an
exceptional exit the caller receives *that* exception object.  All call indices are covered because loop sites are
verified from the invariant.  'Nothing left behind' = no write to global state on any path (unit FLOW / C14).
"""
from props._mainbased import main_property, selector
from units import sf_unit, ls_unit, flow_unit

PID = "C20"


def check(tier, seed):
    sf = sf_unit.run_unit(tier)
    ls = ls_unit.run_unit(tier)
    fl = flow_unit.run_unit(tier)
    return main_property(
        PID, tier, seed, "proof",
        "exceptional-path exploration of minimize_lbfgsb, ScalarFunction methods (unit SF) and line_search (unit LS); "
        "no handler encloses a user call and no mutable global state (unit FLOW).",
        extra_reports=[(sf, lambda r: "raises::" in r.name or "inv_preserved_on_raise" in r.name),
                       (ls, selector(PID)), (fl, selector(PID))],
        extra_assumptions=["library frames are transparent: approx_derivative and DCSRCH do not catch the user's exceptions"],
        what="clauses checked natively: exception injected at a random call index of each callable propagates as the "
             "same object; a later fault-free call equals the reference run")
