"""C17 - a gradient scaler is equivalent to minimising the explicitly scaled objective.

Obligations on the real code: the scaler is invoked once with (start point, unscaled gradient, bounds); the scaling
factor is fixed afterwards (invariant scale_fixed); every value consumed is F(p)*s / Gr(p)*s (f0_of_x, grad_of_x,
ScalarFunction contract); the target is tested on fun/s.  The equivalence with the run on (s*f, s*grad f) then
follows from commutativity of IEEE multiplication and determinism (hand lemma, listed as assumption).
"""
from props._mainbased import main_property
from units import sf_unit

PID = "C17"


def check(tier, seed):
    sf = sf_unit.run_unit(tier)
    return main_property(
        PID, tier, seed, "proof",
        "scaler obligations at every return + invariant conjuncts (UF domain, z3); ScalarFunction's value/freshness "
        "clauses (unit SF: every answer is the user's value times the CURRENT scaling factor, in a fresh array); "
        "equivalence lemma by hand.",
        extra_reports=[(sf, lambda r: any(k in r.name for k in ("fresh_value", "result_fresh", "scaling_untouched",
                                                                 "scaling_is_one")))],
        extra_assumptions=["lemma C17::equivalence (hand argument): identical streams of (f, g) values + determinism "
                           "(C14) give identical runs; checked natively by the bounded stand-in",
                           "premise: no checkpoint together with a scaler; the scaler returns s > 0"],
        what="clauses checked natively: run with scaler s vs run on (s*f, s*grad f): same evaluation points and result")
