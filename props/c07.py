"""C07 - the callback state is a faithful snapshot usable as a crash checkpoint.

Call-site clauses at the callback: every field of the state equals the current (x, f0, grad, counters, pairs); nit
counts completed iterations; state.x and the xk argument are copies; ownership: no later in-place write to anything
handed to the callback (frame obligation no_write_escaped[callback], loop invariant x_local) - for every iteration
(invariant cut), i.e. every crash point.
"""
from props._mainbased import main_property, selector
from units import kernels_unit

PID = "C07"


def check(tier, seed):
    # the restore contract for ANY checkpoint object - in particular a state kept by the callback, whose report
    # fields (status 2, running task) differ from those of a returned result
    kn = kernels_unit.run_unit(tier, only="restore")
    return main_property(
        PID, tier, seed, "proof",
        "callback-site clauses + ownership/frame obligations, UF domain; 'same continuation after restart from the "
        "state' = C06's restore contract with this state as checkpoint.",
        extra_reports=[(kn, selector(PID))],
        extra_assumptions=["the continuation clause (restart from the retained state) relies on C06's restore contract"],
        what="clauses checked natively: state k equals result of a run with maxiter=k; state unchanged afterwards; "
             "callback returning False does not alter the run; a restart from the state kept at iteration k produces "
             "the uninterrupted run's iterate k+1 and counters")
