"""C09 - subspace minimisation returns the box-truncated Newton point of the model.

Unit SUBSPACE (B2, proved-at-shape): the real get_freev + subspace_minimization for all real inputs, every free/active
partition, at n <= 2 (quick) / 3 (thorough), memory without stored pair (B = theta I).  With stored pairs and n <= 10:
bounded native stand-in against a dense solve of the reduced system.  The descent clause is the lemma
m(xbar) <= m(xc) < 0 and B positive definite => g.(xbar - x) < 0, discharged as an obligation.
"""
from checks.common import Outcome, finish
from props._mainbased import attach_standin, native_replay_for
from units import subspace_unit

PID = "C09"


def check(tier, seed):
    out = Outcome(PID, tier, seed, "other")
    out.checker_cmd = f"python3-vt checks/run.py {PID} --tier {tier}"
    rep = subspace_unit.run_unit(tier)
    out.add_report(rep, lambda r: "C09" in r.props)
    out.labels = {"proved": 0, "proved_at_shape": len([r for r in out.selected if r.status == "proved"]), "bounded": 0}
    out.assumptions = ["A-REAL: machine floats treated as mathematical reals",
                       "shapes: n <= %d, memory m = 0; every bound pattern at n <= 2" % (2 if tier == "quick" else 3),
                       "scipy.sparse.lil_matrix selection matrices modelled as dense 0/1 arrays",
                       "np.linalg.solve(A, b) = the unique w with A w = b (non-singular A)",
                       "ghost read of the local alpha_star as witness of the truncation factor",
                       "memory with stored pairs (m >= 1; form_k / factorize_k branch): bounded native stand-in only"]
    out.explanation = ("postconditions of the real subspace step discharged by z3 (NRA) at the stated shapes: "
                       "proved-at-shape; plus a bounded native comparison with memory.")
    out.extra["shapes"] = {"n": [1, 2] if tier == "quick" else [1, 2, 3], "memory_pairs": [0]}
    attach_standin(out, PID, tier, seed, quick_runs=400, thorough_runs=20000,
                   what="native: real Cauchy + subspace step with 0..5 stored pairs, n 1..10, against numpy.linalg.solve "
                        "of the reduced system (active fixed, truncation, model non-increase, descent)")
    return finish(out, native_replay_for(PID))
