"""C15 - the function wrapper never serves a stale value and counts every evaluation once.

Decided by: proof unit SF (class invariant of ScalarFunction established by prepare_scalar_function/__init__ and
preserved by fun/grad/fun_and_grad from a generic state; method postconditions from the property text), B1 (UF
domain, z3).  Unbounded in history length, alphabet of points, scaling-factor changes, all five gradient modes.
Bounded stand-in (labelled bounded): exhaustive native histories, used as replay oracle for refutations.
"""
import json
import os
import subprocess

from checks.common import Outcome, finish, REPO, NATIVE_PY, VERIF
from units import sf_unit

PID = "C15"


def native_histories(max_len, modes=()):
    env = dict(os.environ, PYTHONPATH=REPO)
    cmd = [NATIVE_PY, "-W", "ignore", os.path.join(VERIF, "native", "sf_replay.py"), str(max_len)] + list(modes)
    r = subprocess.run(cmd, capture_output=True, text=True, env=env, timeout=3600)
    try:
        return json.loads(r.stdout.strip().splitlines()[-1])
    except Exception:
        return {"error": (r.stderr or r.stdout)[-800:], "histories": 0, "failures": []}


def native_replay(result):
    mode = result.label.split("[")[1].split(",")[0] if "[" in result.label else None
    modes = [mode] if mode in ("callable", "2-point", "3-point", "cs", "None") else []
    doc = native_histories(3, modes)
    doc["confirmed"] = bool(doc.get("failures"))
    doc["how"] = "exhaustive native call histories (length<=3, 12-letter alphabet) on the real ScalarFunction"
    return doc


def check(tier, seed):
    out = Outcome(PID, tier, seed, "proof")
    out.checker_cmd = f"python3-vt checks/run.py {PID} --tier {tier}"
    rep = sf_unit.run_unit(tier)
    out.add_report(rep, lambda r: "C15" in r.props)
    out.labels = {"proved": len([r for r in out.selected if r.status == "proved"]), "proved_at_shape": 0, "bounded": 0}
    out.assumptions = [
        "A-NAN (np.array_equal is value equality only without NaN)",
        "assumed contract of scipy approx_derivative: requires lb<=x0<=ub; calls the wrapped objective k>=0 times at "
        "points inside the box; deterministic function of (x0, f0, options); does not catch the objective's exceptions",
        "FD modes: requested points are inside the bounds (precondition of grad/fun_and_grad)",
        "the user does not mutate arrays it returned from its gradient (sf.g is the user's array for a callable gradient)",
        "machine floats: arithmetic uninterpreted (bit-for-bit provenance), comparisons as on the reals",
    ]
    out.explanation = ("Class invariant + method contracts of the real ScalarFunction source, every obligation "
                       "discharged by z3 in the UF domain; holds for histories of any length.")
    maxlen = 3 if tier == "quick" else 4
    nat = native_histories(maxlen)
    out.standin = {"evaluations": nat.get("histories", 0), "distinct_nontrivial": nat.get("histories", 0),
                   "rule": f"bounded (not counted as proved): every history of length<={maxlen} over 12 letters "
                           "(3 methods x 3 points + 3 scaling changes) x 5 gradient modes on the real class; "
                           "all histories are distinct by construction",
                   "samples": [["callable", [["fun", 0, 0], ["grad", 0, 0], ["fun_and_grad", 2, 1]]]],
                   "label": "bounded"}
    if nat.get("error"):
        out.errors.append("native stand-in failed to run: " + nat["error"])
    for f in nat.get("failures", []):
        out.standin_failures.append({"name": "native::sf_history", "label": str(f.get("mode")),
                                     "info": f"{f['what']} history={f['history']}", "detail": f})
    return finish(out, native_replay)
