"""C12 - on unconstrained problems the iterates are those of reference Algorithm 778.

'Same evaluation sequence as a compiled Fortran binary' is not an obligation a solver can discharge: the trajectory
clause is BOUNDED (native comparison with SciPy's L-BFGS-B).  Proved (trivial VCs, but exactly the silent changes the
property fears): the reference constants on the signature (ftol_linesearch=1e-3, gtol_linesearch=0.9, xtol_linesearch=0.1,
eps_SY = machine epsilon) and that they reach DCSRCH(phi, dphi, ftol, gtol, xtol, 0.0, stpmax) and the curvature test
unmodified (dataflow obligations in units MAIN / LS), the first-step rule, theta = y.y/s.y (unit BFGS), the freshness
of the values ScalarFunction hands to the solver (unit SF) and the exactness of factorize_k (LK E LK' == K, m <= 2).
"""
import ast

from props._mainbased import main_property, selector
from pyvc.harness import program, UnitReport
from units import ls_unit, bfgs_unit, sf_unit, subspace_unit
from units.flow_unit import R

PID = "C12"
REFERENCE = {"ftol_linesearch": 1e-3, "gtol_linesearch": 0.9, "xtol_linesearch": 0.1, "eps_SY": 2.2e-16, "maxls": 20,
             "maxcor": 10}


def defaults_report():
    rep = UnitReport("DEFAULTS")
    tree = program().modules["main"][0]
    fn = [n for n in tree.body if isinstance(n, ast.FunctionDef) and n.name == "minimize_lbfgsb"][0]
    got = {a.arg: d for a, d in zip(fn.args.kwonlyargs, fn.args.kw_defaults) if d is not None}
    for k, v in REFERENCE.items():
        d = got.get(k)
        ok = isinstance(d, ast.Constant) and d.value == v
        rep.results.append(R(f"main.minimize_lbfgsb::defaults::{k}", ok, ("C12",), ("lbfgsb/main.py", fn.lineno),
                             f"default of {k} is {ast.unparse(d) if d is not None else None}, Algorithm 778 uses {v}"))
    # eps_SY must be forwarded to the curvature test
    calls = [c for c in ast.walk(fn) if isinstance(c, ast.Call) and isinstance(c.func, ast.Name)
             and c.func.id == "update_lbfgs_matrices"]
    okf = bool(calls) and all(any(k.arg == "eps" and isinstance(k.value, ast.Name) and k.value.id == "eps_SY"
                                  for k in c.keywords) for c in calls)
    rep.results.append(R("main.minimize_lbfgsb::dataflow::eps_SY_reaches_curvature_test", okf, ("C12",),
                         ("lbfgsb/main.py", fn.lineno), f"{len(calls)} call(s) of update_lbfgs_matrices"))
    rep.paths = 1
    return rep


def check(tier, seed):
    ls = ls_unit.run_unit(tier)
    bf = bfgs_unit.run_unit(tier)
    df = defaults_report()
    # the gradients stored in the history are the user's values, not aliases of a buffer the user may reuse (unit SF);
    # the LEL' factorization of the middle matrix is exact - no absolute regularisation constant (unit SUBSPACE)
    sf = sf_unit.run_unit(tier)
    fk = UnitReport("SUBSPACE")
    fk.functions |= {"subspacemin.factorize_k"}
    for m in (1, 2):
        fk.merge(subspace_unit._work_fk(m))
    return main_property(
        PID, tier, seed, "other",
        "constants and dataflow of the reference algorithm proved; trajectory agreement with SciPy's L-BFGS-B bounded.",
        extra_reports=[(ls, selector(PID)), (bf, lambda r: "theta" in r.name), (df, lambda r: True),
                       (sf, lambda r: any(k in r.name for k in ("fresh_value", "result_fresh", "post[g]", "post[f]"))),
                       (fk, lambda r: "factorize_k" in r.name or "cholesky" in r.name)],
        extra_assumptions=["trajectory clause: bounded native comparison with scipy.optimize.minimize(method='L-BFGS-B') "
                           "on unconstrained QP+quartic / QP+softplus / Rosenbrock n<=8, first 12 iterations, compared "
                           "while no documented deviation (first-step rule, lowest-trial acceptance) has fired",
                           "the reference table (lnsrlb constants, matupd skip rule, first step) is taken from "
                           "Algorithm 778 as cited in the package documentation"],
        what="evaluation-point sequences of the port and of SciPy's L-BFGS-B agree to 1e-6 relative")
