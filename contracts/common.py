"""Spec functions and models of user callables shared by all sidecar contracts.

User callables are uninterpreted: the objective and gradient are *deterministic functions of the value of the point*
(the "fixed objective" premise of the properties); every argument handed to a user callable becomes caller-visible;
every call may raise an exception of an arbitrary class.
"""
import z3

from pyvc.sym import Sym, Arr, Obj, DequeV, SymDeque, UserFn, Vec, R, I, B, uf, wrap, zreal, zint
from pyvc.values import Unsupported
from pyvc.lib import all_le, inbox, vec_of  # noqa: F401

F = uf("F", Vec, R)            # user's objective
Gr = uf("Gr", Vec, Vec)        # user's gradient


def fmul(a, b):
    from pyvc.sym import fop
    return fop("fmul", a, b)


def vscale(v, s):
    return uf("vscale", Vec, R, Vec)(v, s)


def Fs(p, s):
    """scaled objective value as ScalarFunction.fun must return it: F(p) * s (s may be the python float 1.0)."""
    if isinstance(s, (int, float)) and s == 1:
        return F(p)
    return fmul(F(p), zreal(s))


def Vs(v, s):
    if isinstance(s, (int, float)) and s == 1:
        return v
    return vscale(v, zreal(s))


def count(run, name):
    c = run.ghost.setdefault("calls", {}).get(name, 0)
    return zint(c)


def _inplace(dom, p):
    """C05 quantifies over ALL objectives: the user's objective / gradient may work in place on the array it receives
    (x *= a; x -= b; return ...).  After the call the content of that array is unknown."""
    if isinstance(p, Arr):
        dom.run.heap[p.ref] = dom.run.fresh("after_user_call", Vec)


def user_F(dom, fn, args, kw):
    if len(args) != 1 or kw:
        raise Unsupported("objective called with extra arguments (args=() in every verified configuration)")
    p = args[0]
    dom.run.log.append(("eval_point", "fun", dom.run.heap[p.ref], p.ref, dom.run.site))
    out = Sym(F(vec_of(dom, p)))
    _inplace(dom, p)
    return out


def user_G(dom, fn, args, kw):
    if len(args) != 1 or kw:
        raise Unsupported("gradient called with extra arguments")
    p = args[0]
    dom.run.log.append(("eval_point", "jac", dom.run.heap[p.ref], p.ref, dom.run.site))
    a = dom.run.alloc(Gr(vec_of(dom, p)), "user_result")
    dom.run.tags[a.ref] = "array returned by the user's gradient"
    _inplace(dom, p)
    return a


def user_callback(dom, fn, args, kw):
    r = dom.run.fresh("cb_ret", B)
    dom.run.ghost.setdefault("cb_returns", []).append(r)
    return Sym(r)


def user_stopval(dom, fn, args, kw):
    if args or kw:
        raise Unsupported("stop-criterion callable called with arguments")
    r = dom.run.fresh(fn.name + "_val", R)
    dom.run.ghost.setdefault("stopvals", {}).setdefault(fn.name, []).append(r)
    return Sym(r)


def user_scaler(dom, fn, args, kw):
    terms = [vec_of(dom, a) for a in args]
    dom.run.ghost["scaler_args"] = list(args)
    dom.run.ghost["scaler_terms"] = terms
    s = uf("SCALER", *([t.sort() for t in terms] + [R]))(*terms)
    dom.run.assume(s > 0)          # premise of C17: the scaler returns s > 0
    return Sym(s)


def user_update(dom, fn, args, kw):
    """update_fun_def(x, f0, f0_old, grad, X, G) -> (f0, f0_old, grad, G'): arbitrary outputs; assumed contract of
    the *user*: G' is a deque with len(G') == len(G) (the documented 'updated grad_deque')."""
    run = dom.run
    x, f0, f0_old, grad, X, G = args
    k = run.ghost.get("n_update_calls", 0) + 1
    run.ghost["n_update_calls"] = k
    nf0 = Sym(run.fresh("upd_f0", R))
    nf0_old = Sym(run.fresh("upd_f0old", R))
    ngrad = run.alloc(run.fresh("upd_grad", Vec), "user_result")
    run.tags[ngrad.ref] = "gradient returned by update_fun_def"
    gc = run.heap[G.ref]
    if isinstance(gc, list):
        newc = []
        for j in range(len(gc)):
            e = run.alloc(run.fresh("upd_G", Vec), "user_result")
            newc.append(e)
        nG = run.alloc_deque(newc, "local")       # the returned deque is handed over to the solver
    else:
        a = run.fresh("upd_Ga", z3.ArraySort(I, Vec))
        nG = run.alloc_deque(SymDeque(a, gc.lo, gc.hi), "local")
    run.tags[nG.ref] = "G returned by update_fun_def"
    run.ghost["last_update_out"] = (nf0, nf0_old, ngrad, nG)
    return (nf0, nf0_old, ngrad, nG)


USER_MODELS = {"F": user_F, "G": user_G, "callback": user_callback, "stopval": user_stopval,
               "scaler": user_scaler, "update": user_update}


def install_user_models(dom):
    dom.user_models.update(USER_MODELS)


def fresh_vec(run, name, region="caller", tag=None):
    a = run.alloc(run.fresh(name, Vec), region)
    if tag:
        run.tags[a.ref] = tag
    return a
