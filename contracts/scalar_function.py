"""Sidecar contract of lbfgsb.scalar_function (ScalarFunction, prepare_scalar_function) - property C15, parts of
C05/C16.

Class invariant Inv(sf), for every history of calls:
   f_updated  =>  sf.f == F(val sf.x)                    (absent attribute f  =>  not f_updated)
   g_updated  =>  val sf.g == Gnum(val sf.x)             (Gnum = Gr for a callable gradient, FD(...) otherwise)
   sf.nfev == base_f + calls(fun)        sf.ngev == base_g + gradient computations
   sf.x is owned by sf (fresh copy: not the caller's array, never handed to user code)
Method postconditions are taken from the statement of C15 (fresh value at the *requested* point times the *current*
scaling factor; no re-evaluation at the last evaluated point; counters).
"""
import z3

from pyvc.sym import Sym, Arr, Obj, UserFn, Vec, R, I, B, uf, wrap, zreal, zint, zbool, INF
from pyvc.values import Unsupported, PyExc
from pyvc.lib import all_le, inbox, vec_of, LIB, model
from .common import F, Gr, Fs, Vs, count, fresh_vec

MODES = ("callable", "2-point", "3-point", "cs", None)
FD_DISPATCH = {None: "2-point", "2-point": "2-point", "3-point": "3-point", "cs": "cs"}


def fd_term(method, x, f0, lb, ub, rel, absstep):
    """Definition of the (uninterpreted) finite-difference operator: a deterministic function of these values."""
    args = [x, f0, lb, ub]
    tag = [method]
    for nm, v in (("rel", rel), ("abs", absstep)):
        if v is None:
            tag.append(nm + "=None")
        else:
            tag.append(nm)
            args.append(zreal(v))
    f = uf("FD[" + ",".join(tag) + "]", *([a.sort() for a in args] + [Vec]))
    return f(*args)


class SfCfg:
    """The configuration a ScalarFunction is created from, as the *caller* states it (spec side)."""

    def __init__(self, mode, lb, ub, eps, rel_step):
        self.mode, self.lb, self.ub, self.eps, self.rel_step = mode, lb, ub, eps, rel_step

    def gnum(self, xv):
        if self.mode == "callable":
            return Gr(xv)
        method = FD_DISPATCH[self.mode]
        absstep = self.eps if self.mode is None else None       # None -> absolute step eps; strings -> relative
        return fd_term(method, xv, F(xv), self.lb, self.ub, self.rel_step, absstep)


# ------------------------------------------------------------------------------------------------- library model
def approx_derivative_model(dom, args, kw):
    """ASSUMED CONTRACT of scipy.optimize._numdiff.approx_derivative(fun, x0, method, rel_step, abs_step, f0, bounds):
    requires lb <= x0 <= ub (else ValueError); calls `fun` k >= 0 times, each at a point inside [lb, ub]; does not
    catch exceptions of `fun`; returns a fresh array, a deterministic function of (x0, f0, options).
    The effect of the k calls of the closure is obtained by verifying ONE generic call of the real closure body
    (counting invariant) and summarising k of them."""
    run = dom.run
    interp = dom.interp
    fw, x = args[0], args[1]
    f0 = kw.get("f0")
    method = kw.get("method", "3-point")
    rel, absstep = kw.get("rel_step"), kw.get("abs_step")
    bounds = kw.get("bounds", (-INF, INF))
    lb, ub = bounds
    xv = vec_of(dom, x)
    lbv = vec_of(dom, lb) if isinstance(lb, Arr) else uf("fullvec", R, Vec)(dom.uf_real(lb))
    ubv = vec_of(dom, ub) if isinstance(ub, Arr) else uf("fullvec", R, Vec)(dom.uf_real(ub))
    run.oblige("approx_derivative::requires::inbox", inbox(xv, lbv, ubv), props=("C16", "C02", "INBOX"),
               info=f"finite-difference base point must lie inside the bounds (else ValueError) at {run.site}")
    run.assume(inbox(xv, lbv, ubv))
    run.log.append(("fd_call", method, xv, run.site))
    run.ghost["fd_calls"] = wrap(zint(run.ghost.get("fd_calls", 0)) + 1)
    if f0 is None:
        raise Unsupported("approx_derivative without f0")
    sf = fw.env.get("self")
    k = run.fresh("stencil_k", I)
    run.assume(k >= 0)
    # one generic stencil call of the real closure
    before = dict(sf.f)
    c0 = count(run, "fun")
    n0 = zint(sf.f["nfev"])
    p = fresh_vec(run, "stencil_pt", "local", "finite-difference stencil point")
    run.assume(inbox(run.heap[p.ref], lbv, ubv))
    run.ghost["in_stencil"] = True
    try:
        res = interp.call_closure(fw, [p], {})
    finally:
        run.ghost["in_stencil"] = False
    run.oblige("fun_wrapped::ensures::counts_once",
               z3.And(zint(sf.f["nfev"]) == n0 + 1, count(run, "fun") == c0 + 1), props=("C15", "C16", "C05"))
    run.oblige("fun_wrapped::ensures::value", zreal(res) == F(run.heap[p.ref]) if isinstance(res, (Sym, float, int))
               else False, props=("C15", "C16"))
    changed = [f for f in set(before) | set(sf.f) if f not in ("nfev", "_lowest_x", "_lowest_f")
               and before.get(f, None) is not sf.f.get(f, None)]
    run.oblige("fun_wrapped::frame", not changed, props=("C15",), backend="frame",
               info=f"fields changed by fun_wrapped: {changed}")
    run.oblige("fun_wrapped::arg_not_handed_out", run.region.get(p.ref) == "local", props=("C15",), backend="frame")
    # summary of k calls
    sf.f["nfev"] = wrap(n0 + k)
    run.ghost["calls"]["fun"] = wrap(c0 + k)
    run.ghost["stencil"] = wrap(zint(run.ghost.get("stencil", 0)) + k)
    sf.f["_lowest_f"] = Sym(run.fresh("lowest_f", R))
    sf.f["_lowest_x"] = fresh_vec(run, "lowest_x", "local")
    res = run.alloc(fd_term(method, xv, zreal(f0), lbv, ubv, rel, absstep))
    return res


LIB["sp.optimize._numdiff.approx_derivative"] = approx_derivative_model


# ------------------------------------------------------------------------------------------------- invariant
def sf_mode_of(jac):
    return "callable" if isinstance(jac, UserFn) else jac


def sf_inv(run, sf, cfg, base_f, base_g):
    """Inv(sf) as a list of (label, formula|bool)."""
    H = run.heap
    out = []
    fu, gu = sf.f.get("f_updated"), sf.f.get("g_updated")
    x = sf.f.get("x")
    if not isinstance(x, Arr) or not z3.is_expr(H.get(x.ref)):
        return [("shape", False)]
    xv = H[x.ref]
    if "f" in sf.f:
        out.append(("f_current", z3.Implies(zbool(fu), zreal(sf.f["f"]) == F(xv))))
    else:
        out.append(("f_current", z3.Not(zbool(fu))))
    if "g" in sf.f:
        g = sf.f["g"]
        if isinstance(g, Arr) and z3.is_expr(H.get(g.ref)):
            out.append(("g_current", z3.Implies(zbool(gu), H[g.ref] == cfg.gnum(xv))))
        else:
            out.append(("g_current", False))
    else:
        out.append(("g_current", z3.Not(zbool(gu))))
    out.append(("nfev_counts", zint(sf.f["nfev"]) == base_f + count(run, "fun")))
    ngrad = count(run, "jac") if cfg.mode == "callable" else zint(run.ghost.get("fd_calls", 0))
    out.append(("ngev_counts", zint(sf.f["ngev"]) == base_g + ngrad))
    out.append(("x_owned", run.region.get(x.ref) == "local" and x.ref not in run.frozen))
    return out


def sf_havoc(run, sf, cfg):
    """Generic ScalarFunction state: every mutable field fresh.  Returns (base_f, base_g)."""
    sf.f["x"] = fresh_vec(run, "sf_x", "local", "sf.x")
    sf.f["g"] = fresh_vec(run, "sf_g", "user_result" if cfg.mode == "callable" else "local", "sf.g")
    sf.f["f"] = Sym(run.fresh("sf_f", R))
    sf.f["f_updated"] = Sym(run.fresh("f_upd", B))
    sf.f["g_updated"] = Sym(run.fresh("g_upd", B))
    sf.f["H_updated"] = Sym(run.fresh("H_upd", B))
    sf.f["nfev"] = Sym(run.fresh("nfev", I))
    sf.f["ngev"] = Sym(run.fresh("ngev", I))
    sf.f["_lowest_f"] = Sym(run.fresh("lowest_f", R))
    sf.f["_lowest_x"] = fresh_vec(run, "lowest_x", "local")
    calls = run.ghost.setdefault("calls", {})
    calls["fun"] = Sym(run.fresh("calls_fun", I))
    calls["jac"] = Sym(run.fresh("calls_jac", I))
    run.ghost["fd_calls"] = Sym(run.fresh("fd_calls", I))
    run.ghost["stencil"] = Sym(run.fresh("stencil", I))
    base_f = zint(sf.f["nfev"]) - count(run, "fun")
    ngrad = count(run, "jac") if cfg.mode == "callable" else zint(run.ghost["fd_calls"])
    base_g = zint(sf.f["ngev"]) - ngrad
    return base_f, base_g


def fd_observer(interp, phase, clo, bound, res):
    """Ghost: count gradient computations in FD modes (one per update_grad that reaches approx_derivative)."""
    pass
