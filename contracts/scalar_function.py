"""Sidecar contract of lbfgsb.scalar_function (ScalarFunction, prepare_scalar_function) - property C15, parts of
C05/C16.

Class invariant Inv(sf), for every history of calls:
   f_updated  =>  sf.f == F(val sf.x)                    (absent attribute f  =>  not f_updated)
   g_updated  =>  val sf.g == Gnum(val sf.x)             (Gnum = Gr for a callable gradient, FD(...) otherwise)
   sf.nfev == base_f + calls(fun)        sf.ngev == base_g + gradient computations
   sf.x is owned by sf (fresh copy: not the caller's array, never handed to user code)
Method postconditions are taken from the statement of C15 (fresh value at the *requested* point times the *current*
scaling factor; no re-evaluation at the last evaluated point; counters).
"""
import z3

from pyvc.sym import Sym, Arr, Obj, UserFn, Vec, R, I, B, uf, wrap, zreal, zint, zbool, INF
from pyvc.values import Unsupported, PyExc
from pyvc.lib import all_le, inbox, vec_of, LIB, model
from .common import F, Gr, Fs, Vs, count, fresh_vec

MODES = ("callable", "2-point", "3-point", "cs", None)
FD_DISPATCH = {None: "2-point", "2-point": "2-point", "3-point": "3-point", "cs": "cs"}


def fd_term(method, x, f0, lb, ub, rel, absstep):
    """Definition of the (uninterpreted) finite-difference operator: a deterministic function of these values."""
    args = [x, f0, lb, ub]
    tag = [method]
    for nm, v in (("rel", rel), ("abs", absstep)):
        if v is None:
            tag.append(nm + "=None")
        else:
            tag.append(nm)
            args.append(zreal(v))
    f = uf("FD[" + ",".join(tag) + "]", *([a.sort() for a in args] + [Vec]))
    return f(*args)


class SfCfg:
    """The configuration a ScalarFunction is created from, as the *caller* states it (spec side)."""

    def __init__(self, mode, lb, ub, eps, rel_step):
        self.mode, self.lb, self.ub, self.eps, self.rel_step = mode, lb, ub, eps, rel_step

    def gnum(self, xv):
        if self.mode == "callable":
            return Gr(xv)
        method = FD_DISPATCH[self.mode]
        absstep = self.eps if self.mode is None else None       # None -> absolute step eps; strings -> relative
        fd = fd_term(method, xv, F(xv), self.lb, self.ub, self.rel_step, absstep)
        # a variable with lb == ub cannot be perturbed (the difference quotient is 0/0): its derivative is reported as 0
        fixed = uf("cmp_Eq", Vec, Vec, Vec)(self.lb, self.ub)
        return uf("np.where", Vec, R, Vec, Vec)(fixed, z3.RealVal(0), fd)


# ------------------------------------------------------------------------------------------------- library model
def approx_derivative_model(dom, args, kw):
    """ASSUMED CONTRACT of scipy.optimize._numdiff.approx_derivative(fun, x0, method, rel_step, abs_step, f0, bounds):
    requires lb <= x0 <= ub (else ValueError); calls `fun` k >= 0 times, each at a point inside [lb, ub]; does not
    catch exceptions of `fun`; returns a fresh array, a deterministic function of (x0, f0, options).
    The effect of the k calls of the closure is obtained by verifying ONE generic call of the real closure body
    (counting invariant) and summarising k of them."""
    run = dom.run
    interp = dom.interp
    fw, x = args[0], args[1]
    f0 = kw.get("f0")
    method = kw.get("method", "3-point")
    rel, absstep = kw.get("rel_step"), kw.get("abs_step")
    bounds = kw.get("bounds", (-INF, INF))
    lb, ub = bounds
    xv = vec_of(dom, x)
    lbv = vec_of(dom, lb) if isinstance(lb, Arr) else uf("fullvec", R, Vec)(dom.uf_real(lb))
    ubv = vec_of(dom, ub) if isinstance(ub, Arr) else uf("fullvec", R, Vec)(dom.uf_real(ub))
    run.oblige("approx_derivative::requires::inbox", inbox(xv, lbv, ubv), props=("C16", "C02", "INBOX"),
               info=f"finite-difference base point must lie inside the bounds (else ValueError) at {run.site}")
    run.assume(inbox(xv, lbv, ubv))
    run.log.append(("fd_call", method, xv, run.site))
    run.ghost["fd_calls"] = wrap(zint(run.ghost.get("fd_calls", 0)) + 1)
    if f0 is None:
        raise Unsupported("approx_derivative without f0")
    sf = fw.env.get("self")
    k = run.fresh("stencil_k", I)
    run.assume(k >= 0)
    # one generic stencil call of the real closure
    before = dict(sf.f)
    c0 = count(run, "fun")
    n0 = zint(sf.f["nfev"])
    p = fresh_vec(run, "stencil_pt", "local", "finite-difference stencil point")
    run.assume(inbox(run.heap[p.ref], lbv, ubv))
    run.ghost["in_stencil"] = True
    try:
        res = interp.call_closure(fw, [p], {})
    finally:
        run.ghost["in_stencil"] = False
    run.oblige("fun_wrapped::ensures::counts_once",
               z3.And(zint(sf.f["nfev"]) == n0 + 1, count(run, "fun") == c0 + 1), props=("C15", "C16", "C05"))
    run.oblige("fun_wrapped::ensures::value", zreal(res) == F(run.heap[p.ref]) if isinstance(res, (Sym, float, int))
               else False, props=("C15", "C16"))
    changed = [f for f in set(before) | set(sf.f) if f not in ("nfev", "_lowest_x", "_lowest_f")
               and before.get(f, None) is not sf.f.get(f, None)]
    run.oblige("fun_wrapped::frame", not changed, props=("C15",), backend="frame",
               info=f"fields changed by fun_wrapped: {changed}")
    run.oblige("fun_wrapped::arg_not_handed_out", run.region.get(p.ref) == "local", props=("C15",), backend="frame")
    # summary of k calls
    sf.f["nfev"] = wrap(n0 + k)
    run.ghost["calls"]["fun"] = wrap(c0 + k)
    run.ghost["stencil"] = wrap(zint(run.ghost.get("stencil", 0)) + k)
    sf.f["_lowest_f"] = Sym(run.fresh("lowest_f", R))
    sf.f["_lowest_x"] = fresh_vec(run, "lowest_x", "local")
    res = run.alloc(fd_term(method, xv, zreal(f0), lbv, ubv, rel, absstep))
    return res


LIB["sp.optimize._numdiff.approx_derivative"] = approx_derivative_model


# ------------------------------------------------------------------------------------------------- invariant
def sf_mode_of(jac):
    return "callable" if isinstance(jac, UserFn) else jac


def sf_inv(run, sf, cfg, base_f, base_g):
    """Inv(sf) as a list of (label, formula|bool)."""
    H = run.heap
    out = []
    fu, gu = sf.f.get("f_updated"), sf.f.get("g_updated")
    x = sf.f.get("x")
    if not isinstance(x, Arr) or not z3.is_expr(H.get(x.ref)):
        return [("shape", False)]
    xv = H[x.ref]
    if "f" in sf.f:
        out.append(("f_current", z3.Implies(zbool(fu), zreal(sf.f["f"]) == F(xv))))
    else:
        out.append(("f_current", z3.Not(zbool(fu))))
    if "g" in sf.f:
        g = sf.f["g"]
        if isinstance(g, Arr) and z3.is_expr(H.get(g.ref)):
            out.append(("g_current", z3.Implies(zbool(gu), H[g.ref] == cfg.gnum(xv))))
        else:
            out.append(("g_current", False))
    else:
        out.append(("g_current", z3.Not(zbool(gu))))
    out.append(("nfev_counts", zint(sf.f["nfev"]) == base_f + count(run, "fun")))
    ngrad = count(run, "jac") if cfg.mode == "callable" else zint(run.ghost.get("fd_calls", 0))
    out.append(("ngev_counts", zint(sf.f["ngev"]) == base_g + ngrad))
    out.append(("x_owned", run.region.get(x.ref) == "local" and x.ref not in run.frozen))
    return out


def sf_havoc(run, sf, cfg):
    """Generic ScalarFunction state: every mutable field fresh.  Returns (base_f, base_g)."""
    KNOWN = {"x", "g", "f", "f_updated", "g_updated", "H_updated", "nfev", "ngev", "_lowest_f", "_lowest_x", "n",
             "nhev", "scaling_factor", "_update_fun_impl", "_update_grad_impl"}
    for k, v in list(sf.f.items()):
        if k in KNOWN:
            continue
        # a field the contract does not know (added by a change to the class): arbitrary value of the same kind
        if isinstance(v, Arr):
            sf.f[k] = fresh_vec(run, "sf_" + k, "local", "sf." + k)
        elif isinstance(v, Sym) or (isinstance(v, (int, float)) and not isinstance(v, bool)):
            sort = v.e.sort() if isinstance(v, Sym) else (I if isinstance(v, int) else R)
            sf.f[k] = Sym(run.fresh("sf_" + k, sort))
        elif isinstance(v, bool):
            sf.f[k] = Sym(run.fresh("sf_" + k, B))
        elif v is None:
            sf.f[k] = fresh_vec(run, "sf_" + k, "local", "sf." + k) if k.startswith("_") or True else None
    sf.f["x"] = fresh_vec(run, "sf_x", "local", "sf.x")
    sf.f["g"] = fresh_vec(run, "sf_g", "user_result" if cfg.mode == "callable" else "local", "sf.g")
    sf.f["f"] = Sym(run.fresh("sf_f", R))
    sf.f["f_updated"] = Sym(run.fresh("f_upd", B))
    sf.f["g_updated"] = Sym(run.fresh("g_upd", B))
    sf.f["H_updated"] = Sym(run.fresh("H_upd", B))
    sf.f["nfev"] = Sym(run.fresh("nfev", I))
    sf.f["ngev"] = Sym(run.fresh("ngev", I))
    sf.f["_lowest_f"] = Sym(run.fresh("lowest_f", R))
    sf.f["_lowest_x"] = fresh_vec(run, "lowest_x", "local")
    calls = run.ghost.setdefault("calls", {})
    calls["fun"] = Sym(run.fresh("calls_fun", I))
    calls["jac"] = Sym(run.fresh("calls_jac", I))
    run.ghost["fd_calls"] = Sym(run.fresh("fd_calls", I))
    run.ghost["stencil"] = Sym(run.fresh("stencil", I))
    base_f = zint(sf.f["nfev"]) - count(run, "fun")
    ngrad = count(run, "jac") if cfg.mode == "callable" else zint(run.ghost["fd_calls"])
    base_g = zint(sf.f["ngev"]) - ngrad
    return base_f, base_g


def fd_observer(interp, phase, clo, bound, res):
    """Ghost: count gradient computations in FD modes (one per update_grad that reaches approx_derivative)."""
    pass


# ------------------------------------------------------------------------------------------------- method contracts
def sf_method_spec(method, cfg, old, av, k_stencil):
    """Post-state of fun / grad / fun_and_grad as a function of the pre-state - ONE definition, used twice:
    unit SF proves that the real methods satisfy it (obligations `ensures::post[...]`), callers (main, line_search)
    apply it at call sites instead of the body (modular verification).
    old: dict(fu, gu, xv, f, gv) z3 terms of the pre-state; av: value of the requested point."""
    same = av == old["xv"]
    fc = z3.And(old["fu"], same)
    gc = z3.And(old["gu"], same)
    callable_mode = cfg.mode == "callable"
    one = lambda c: z3.If(c, 0, 1)       # noqa: E731
    post = {}
    if method == "fun":
        post["fu"], post["gu"] = z3.BoolVal(True), gc
        post["f"] = F(av)
        post["g"] = old["gv"]
        post["dF_direct"], post["dGrad"] = one(fc), z3.IntVal(0)
        post["stencil"] = z3.IntVal(0)
    elif method == "grad":
        post["gu"] = z3.BoolVal(True)
        post["g"] = cfg.gnum(av)
        post["dGrad"] = one(gc)
        if callable_mode:
            post["fu"] = fc
            post["f"] = old["f"]
            post["dF_direct"], post["stencil"] = z3.IntVal(0), z3.IntVal(0)
        else:
            post["fu"] = z3.Or(fc, z3.Not(gc))
            post["f"] = z3.If(gc, old["f"], F(av))
            post["dF_direct"] = z3.If(gc, 0, one(fc))
            post["stencil"] = z3.If(gc, 0, k_stencil)
    else:
        post["fu"], post["gu"] = z3.BoolVal(True), z3.BoolVal(True)
        post["f"], post["g"] = F(av), cfg.gnum(av)
        post["dF_direct"], post["dGrad"] = one(fc), one(gc)
        post["stencil"] = z3.IntVal(0) if callable_mode else z3.If(gc, 0, k_stencil)
    return post


def sf_old_state(run, sf):
    H = run.heap
    return dict(fu=zbool(sf.f["f_updated"]), gu=zbool(sf.f["g_updated"]), xv=H[sf.f["x"].ref],
                f=zreal(sf.f["f"]) if "f" in sf.f else z3.RealVal(0),
                gv=H[sf.f["g"].ref] if "g" in sf.f else z3.Const("VEC0", Vec))


def make_sf_method_contract(method):
    def contract(it, clo, b, site):
        """CONTRACT of ScalarFunction.<method>(x) as proved in unit SF, applied at a call site."""
        run, dom = it.dom.run, it.dom
        ctx = run.ghost["ctx"]
        cfg = ctx.sfcfg
        sf, x = b["self"], b["x"]
        av = vec_of(dom, x)
        name = f"scalar_function.ScalarFunction.{method}::call"
        for lab, f in sf_inv(run, sf, cfg, ctx.base_f, ctx.base_g):
            run.oblige(f"{name}::requires::inv::{lab}", f, props=("REQ", "C05"))
        run.oblige(f"{name}::requires::inbox", inbox(av, cfg.lb, cfg.ub), props=("C02", "C16", "INBOX"),
                   info=f"point handed to the user's objective/gradient must lie inside the box ({run.site})")
        run.assume(inbox(av, cfg.lb, cfg.ub))
        run.log.append(("sf_eval", method, av, run.site))
        old = sf_old_state(run, sf)
        k = run.fresh("stencil_k", I)
        run.assume(k >= 0)
        post = sf_method_spec(method, cfg, old, av, k)
        raised = dom.user_may_raise and run.choose(f"sf.{method}:user_raises", 2) == 1
        n_old, g_old = zint(sf.f["nfev"]), zint(sf.f["ngev"])
        cF, cG = count(run, "fun"), count(run, "jac")
        fd_old, st_old = zint(run.ghost.get("fd_calls", 0)), zint(run.ghost.get("stencil", 0))
        if raised:
            # exceptional exit: Inv(sf) holds, counters advanced by some amount not exceeding the normal one
            from pyvc.sym import ExcV
            base_f, base_g = sf_havoc(run, sf, cfg)
            sf.f["scaling_factor"] = b["self"].f.get("scaling_factor")
            run.assume(z3.And(zint(sf.f["nfev"]) >= n_old, zint(sf.f["ngev"]) >= g_old))
            run.assume(zint(sf.f["nfev"]) - n_old == count(run, "fun") - cF)
            if cfg.mode == "callable":
                run.assume(zint(sf.f["ngev"]) - g_old == count(run, "jac") - cG)
                run.assume(zint(run.ghost["fd_calls"]) == fd_old)
            else:
                run.assume(zint(sf.f["ngev"]) - g_old == zint(run.ghost["fd_calls"]) - fd_old)
                run.assume(count(run, "jac") == cG)
            for lab, f in sf_inv(run, sf, cfg, ctx.base_f, ctx.base_g):
                if lab in ("f_current", "g_current"):
                    run.assume(f)
            exc = ExcV(None, (), tag=("user", f"fun|jac (inside sf.{method})", run.site, "k"))
            run.ghost.setdefault("user_excs", []).append(exc)
            raise PyExc(exc)
        nx = run.alloc(av, "local")
        run.tags[nx.ref] = "sf.x"
        sf.f["x"] = nx
        sf.f["f"] = Sym(z3.simplify(post["f"]))
        ng = run.alloc(z3.simplify(post["g"]), "user_result" if cfg.mode == "callable" else "local")
        sf.f["g"] = ng
        sf.f["f_updated"] = wrap(post["fu"])
        sf.f["g_updated"] = wrap(post["gu"])
        sf.f["H_updated"] = Sym(run.fresh("H_upd", B))
        dF = post["dF_direct"] + post["stencil"]
        sf.f["nfev"] = wrap(n_old + dF)
        run.ghost["calls"]["fun"] = wrap(cF + dF)
        sf.f["ngev"] = wrap(g_old + post["dGrad"])
        if cfg.mode == "callable":
            run.ghost["calls"]["jac"] = wrap(cG + post["dGrad"])
        else:
            run.ghost["fd_calls"] = wrap(fd_old + post["dGrad"])
            run.ghost["stencil"] = wrap(st_old + post["stencil"])
        sf.f["_lowest_f"] = Sym(run.fresh("lowest_f", R))
        s = sf.f["scaling_factor"]
        if method == "fun":
            return wrap(Fs(av, s)) if isinstance(s, Sym) else Sym(Fs(av, s))
        gres = run.alloc(Vs(cfg.gnum(av), s), "local")
        if method == "grad":
            return gres
        return (Sym(Fs(av, s)), gres)
    return contract


def install_sf_method_contracts(it):
    for m in ("fun", "grad", "fun_and_grad"):
        it.contracts[f"scalar_function.ScalarFunction.{m}"] = make_sf_method_contract(m)
