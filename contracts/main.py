"""Sidecar contracts for lbfgsb.main.minimize_lbfgsb: parameters, callee contracts as used by main (modular: at a
call site only the callee's contract is known), the loop invariant INV of loop#1 and the exit clauses that make
properties C02 C03 C04 C05 C07 C13 C14 C17 C18 C20 obligations of the real source.

Top-level postconditions are taken from the property statements, not from the code.
"""
import z3

from pyvc.sym import (Sym, Arr, Obj, DequeV, SymDeque, UserFn, MatTerm, Vec, R, I, B, uf, wrap, zreal, zint, zbool,
                      INF, ND)
from pyvc.values import Unsupported, PyExc, PathEnd, ModelValue
from pyvc.lib import all_le, inbox, vec_of, mat_term, LIB
from pyvc.loops import Cut
from .common import F, Gr, Fs, Vs, count, fresh_vec, fmul, vscale
from .scalar_function import SfCfg, sf_inv, sf_havoc

MSG = dict(PG="CONVERGENCE: NORM_OF_PROJECTED_GRADIENT_<=_PGTOL", TARGET="CONVERGENCE: F_<=_TARGET",
           FTOL="CONVERGENCE: REL_REDUCTION_OF_F_<=_FTOL", ITER="STOP: TOTAL NO. of ITERATIONS REACHED LIMIT",
           EVAL="STOP: TOTAL NO. of f AND g EVALUATIONS EXCEEDS LIMIT", CALLBACK="STOP: USER CALLBACK",
           ABNORMAL="ABNORMAL_TERMINATION_IN_LNSRCH")
DOCUMENTED = set(MSG.values())
CKPT_MSG = "<<message stored in the checkpoint>>"


class Poison(ModelValue):
    """Value of a local that is dead at the loop head (assigned in the body before any use)."""
    __slots__ = ("name",)

    def __init__(self, name):
        self.name = name


class Cfg:
    DIMS = ("ckpt", "ftarget", "gtol", "jac", "scaler", "update", "callback")

    def __init__(self, ckpt=False, ftarget=None, gtol="float", jac="callable", scaler=False, update=False,
                 callback=False):
        self.ckpt, self.ftarget, self.gtol, self.jac = ckpt, ftarget, gtol, jac
        self.scaler, self.update, self.callback = scaler, update, callback

    def label(self):
        return ",".join(f"{k}={getattr(self, k)}" for k in self.DIMS)

    def loop_key(self):
        return (self.jac, self.update, self.callback, self.ftarget is not None)


class Ctx:
    """Ghost constants and parameter terms of one verified call."""
    pass


# ----------------------------------------------------------------------------------------------- spec functions
def vsub(a, b):
    return uf("vsub", Vec, Vec, Vec)(a, b)


def dot(a, b):
    return uf("dot", Vec, Vec, R)(a, b)


def curv(xk, gk, xo, go, eps):
    """Curvature test of is_update_X_and_G, from the statement of C10: s.y > eps * y.y  (s = xk-xo, y = gk-go)."""
    y = vsub(gk, go)
    return dot(vsub(xk, xo), y) > fmul(zreal(eps), dot(y, y))


def projgr_spec(x, g, lb, ub):
    """|| P(x - g) - x ||_inf, the projected-gradient norm of the statement of C04."""
    clip = uf("clip", Vec, Vec, Vec, Vec)(vsub(x, g), lb, ub)
    return uf("np.max", Vec, R)(uf("np.abs", Vec, Vec)(vsub(clip, x)))


def vadd(a, b):
    return uf("vadd", Vec, Vec, Vec)(a, b)


def trial_point(x0, d, stp, lb, ub):
    """clip(x0 + stp*d, lb, ub): the point the line search evaluates and main moves to (same expression)."""
    return uf("clip", Vec, Vec, Vec, Vec)(vadd(x0, vscale(d, zreal(stp))), lb, ub)


SIGN_AXIOMS = None


def sign_axioms():
    """IEEE sign facts used for s.y > 0: dot(v,v) >= 0 and a,b >= 0 => fmul(a,b) >= 0 (no NaN)."""
    v = z3.Const("ax_v", Vec)
    a, b = z3.Reals("ax_a ax_b")
    fm = uf("fmul", R, R, R)
    return [z3.ForAll([v], dot(v, v) >= 0, patterns=[dot(v, v)]),
            z3.ForAll([a, b], z3.Implies(z3.And(a >= 0, b >= 0), fm(a, b) >= 0), patterns=[fm(a, b)])]


# ----------------------------------------------------------------------------------------------- deque helpers
def dq_content(run, dq):
    return run.heap[dq.ref]


def dq_len(run, dq):
    c = run.heap[dq.ref]
    if isinstance(c, list):
        return z3.IntVal(len(c))
    return c.hi - c.lo


def dq_vals(run, dq):
    """concrete deque -> list of Vec terms"""
    c = run.heap[dq.ref]
    return [run.heap[e.ref] for e in c]


def dq_pairs_forall(run, X, G, pred2, pred1=None):
    """forall consecutive k: pred2(X[k+1],G[k+1],X[k],G[k])  and forall k: pred1(X[k],G[k])."""
    cx, cg = run.heap[X.ref], run.heap[G.ref]
    out = []
    if isinstance(cx, list) and isinstance(cg, list):
        if len(cx) != len(cg):
            return z3.BoolVal(False)
        xs, gs = dq_vals(run, X), dq_vals(run, G)
        for k in range(len(xs) - 1):
            out.append(pred2(xs[k + 1], gs[k + 1], xs[k], gs[k]))
        if pred1 is not None:
            for k in range(len(xs)):
                out.append(pred1(xs[k], gs[k]))
        return z3.And(*out) if out else z3.BoolVal(True)
    if isinstance(cx, list) or isinstance(cg, list):
        return z3.BoolVal(False)
    k = z3.Int("k_q")
    same = z3.And(cx.lo == cg.lo, cx.hi == cg.hi)
    body = z3.Implies(z3.And(k >= cx.lo, k < cx.hi - 1),
                      pred2(z3.Select(cx.a, k + 1), z3.Select(cg.a, k + 1), z3.Select(cx.a, k), z3.Select(cg.a, k)))
    out = [same, z3.ForAll([k], body)]
    if pred1 is not None:
        j = z3.Int("j_q")
        out.append(z3.ForAll([j], z3.Implies(z3.And(j >= cx.lo, j < cx.hi),
                                             pred1(z3.Select(cx.a, j), z3.Select(cg.a, j)))))
    return z3.And(*out)


def dq_snapshot(run, dq):
    c = run.heap[dq.ref]
    if isinstance(c, list):
        return tuple(run.heap[e.ref] for e in c)
    return ("sym", c.a, c.lo, c.hi)


def snap_equal(s1, s2):
    """structural equality of two deque snapshots"""
    sym1 = isinstance(s1, tuple) and len(s1) == 4 and isinstance(s1[0], str) and s1[0] == "sym"
    sym2 = isinstance(s2, tuple) and len(s2) == 4 and isinstance(s2[0], str) and s2[0] == "sym"
    if sym1:
        return sym2 and all(z3.eq(z3.simplify(a), z3.simplify(b)) for a, b in zip(s1[1:], s2[1:]))
    if sym2:
        return False
    return len(s1) == len(s2) and all(z3.eq(a, b) for a, b in zip(s1, s2))


def dq_last(run, dq):
    c = run.heap[dq.ref]
    if isinstance(c, list):
        return run.heap[c[-1].ref]
    return z3.Select(c.a, c.hi - 1)


# ----------------------------------------------------------------------------------------------- parameters
def make_params(run, cfg):
    """Symbolic arguments of minimize_lbfgsb for one configuration; returns (kwargs, ctx)."""
    c = Ctx()
    c.cfg = cfg
    g = run.ghost
    x0 = fresh_vec(run, "x0", "caller", "caller's x0")
    bounds = fresh_vec(run, "bounds", "caller", "caller's bounds")
    g.setdefault("ndim", {})[bounds.ref] = 2
    g["ndim"][x0.ref] = 1
    ints = {}
    for nm, lo in (("maxcor", 1), ("maxiter", 0), ("maxfun", 1), ("maxls", 1)):
        ints[nm] = run.fresh(nm, I)
        run.assume(ints[nm] >= lo)
    iprint = run.fresh("iprint", I)
    reals = {nm: run.fresh(nm, R) for nm in ("ftol", "eps", "max_steplength", "ftol_linesearch",
                                             "gtol_linesearch", "xtol_linesearch", "eps_SY")}
    run.assume(reals["eps_SY"] >= 0)
    fun = UserFn("fun", "F")
    jac = UserFn("jac", "G") if cfg.jac == "callable" else cfg.jac
    if cfg.ftarget is None:
        ftarget = None
    elif cfg.ftarget == "float":
        ftarget = Sym(run.fresh("ftarget", R))
    else:
        ftarget = UserFn("ftarget", "stopval")
    gtol = Sym(run.fresh("gtol", R)) if cfg.gtol == "float" else UserFn("gtol", "stopval")
    upd = UserFn("update_fun_def", "update") if cfg.update else None
    cb = UserFn("callback", "callback") if cfg.callback else None
    scaler = UserFn("gradient_scaler", "scaler") if cfg.scaler else None
    ck = None
    c.ck = None
    if cfg.ckpt:
        ck = Obj("OptimizeResult", run.new_ref("caller"))
        ck.f["x"] = fresh_vec(run, "ck_x", "caller", "checkpoint.x")
        ck.f["jac"] = fresh_vec(run, "ck_jac", "caller", "checkpoint.jac")
        ck.f["fun"] = Sym(run.fresh("ck_fun", R))
        for nm in ("nfev", "njev", "nit", "status"):
            ck.f[nm] = Sym(run.fresh("ck_" + nm, I))
        for nm in ("nfev", "njev", "nit"):
            run.assume(ck.f[nm].e >= 0)
        ck.f["success"] = Sym(run.fresh("ck_success", B))
        ck.f["message"] = CKPT_MSG
        hi = Obj("LbfgsInvHessProduct", run.new_ref("caller"))
        hi.f["sk"] = fresh_vec(run, "ck_sk", "caller", "checkpoint.hess_inv.sk")
        hi.f["yk"] = fresh_vec(run, "ck_yk", "caller", "checkpoint.hess_inv.yk")
        g["ndim"][hi.f["sk"].ref] = 2
        g["ndim"][hi.f["yk"].ref] = 2
        ck.f["hess_inv"] = hi
        c.ck = ck
    kwargs = dict(x0=x0, fun=fun, args=(), jac=jac, update_fun_def=upd, bounds=bounds, checkpoint=ck,
                  maxcor=Sym(ints["maxcor"]), ftarget=ftarget, ftol=Sym(reals["ftol"]), gtol=gtol,
                  maxiter=Sym(ints["maxiter"]), eps=Sym(reals["eps"]), maxfun=Sym(ints["maxfun"]), callback=cb,
                  maxls=Sym(ints["maxls"]), finite_diff_rel_step=None,
                  max_steplength=Sym(reals["max_steplength"]), ftol_linesearch=Sym(reals["ftol_linesearch"]),
                  gtol_linesearch=Sym(reals["gtol_linesearch"]), xtol_linesearch=Sym(reals["xtol_linesearch"]),
                  eps_SY=Sym(reals["eps_SY"]), iprint=Sym(iprint), gradient_scaler=scaler, logger=None,
                  is_check_factorization=False)
    c.kwargs = kwargs
    c.x0, c.bounds = x0, bounds
    c.ints, c.reals = ints, reals
    c.lbv = uf("bounds_lb", Vec, Vec)(run.heap[bounds.ref])
    c.ubv = uf("bounds_ub", Vec, Vec)(run.heap[bounds.ref])
    c.sfcfg = SfCfg(cfg.jac, c.lbv, c.ubv, Sym(reals["eps"]), None)
    c.base_f = zint(ck.f["nfev"]) if ck is not None else z3.IntVal(0)
    c.base_g = zint(ck.f["njev"]) if ck is not None else z3.IntVal(0)
    c.nit0 = zint(ck.f["nit"]) if ck is not None else z3.IntVal(0)
    # n0: "the count when iterating starts (1, or the checkpoint's)" - from the statement of C04
    c.n0 = zint(ck.f["nfev"]) if ck is not None else z3.IntVal(1)
    c.ftarget1 = None
    c.gtol1 = None
    # checkpoint well-formedness (premise of C05 on a restart): fun/jac are the user's values at checkpoint.x
    c.wf_ckpt = cfg.ckpt and not cfg.scaler
    if cfg.ckpt:
        xv = run.heap[ck.f["x"].ref]
        run.assume(zreal(ck.f["fun"]) == F(xv))
        run.assume(run.heap[ck.f["jac"].ref] == c.sfcfg.gnum(xv))
    for ax in sign_axioms():
        run.assume_q(ax)
    g["base_pc"] = list(run.pc)
    g["ctx"] = c
    g["calls"] = {}
    return kwargs, c


# ----------------------------------------------------------------------------------------------- callee contracts
def mats_term(dom, mats):
    terms = []
    for k in ("S", "Y", "D", "L", "W", "theta"):
        v = mats.f.get(k)
        if isinstance(v, Arr):
            terms.append(vec_of(dom, v))
        else:
            terms.append(zreal(v))
    inv = mats.f.get("invMfactors")
    for v in inv:
        terms.append(vec_of(dom, v))
    return terms


def _ufv(name, terms, rs=Vec):
    return uf(name, *([t.sort() for t in terms] + [rs]))(*terms)


def c_display(it, clo, b, site):
    """base.display_start/display_iter, cauchy.display_start_point: logging only (verified in unit FLOW)."""
    return None


def c_display_results(it, clo, b, site):
    return Sym(it.dom.run.fresh("has_displayed", B))


def c_initialize_X_and_G(it, clo, b, site):
    """ensures (verified against the body in unit RESTORE at fixed shapes): checkpoint None or no stored pair ->
    two fresh empty deques; otherwise x == checkpoint.x (else ValueError), sizes agree (else ValueError), and two
    fresh deques of equal length min(rows, maxcor+1) >= 1 holding the restored history; nothing is written to the
    checkpoint."""
    run, dom = it.dom.run, it.dom
    x, ck, maxcor = b["x"], b["checkpoint"], b["maxcor"]
    if ck is None:
        return (run.alloc_deque([]), run.alloc_deque([]))
    eq = run.heap[x.ref] == run.heap[ck.f["x"].ref]
    if not run.branch(eq):
        raise PyExc(dom.make_exc("ValueError", ("x0 and checkpoint.x should be equal",)))
    rows = uf("rows", Vec, I)(run.heap[ck.f["hess_inv"].f["sk"].ref])
    run.assume(rows >= 0)
    # class invariant of scipy's LbfgsInvHessProduct (its constructor raises ValueError otherwise): sk, yk same shape
    run.assume(rows == uf("rows", Vec, I)(run.heap[ck.f["hess_inv"].f["yk"].ref]))
    if run.branch(rows == 0):
        return (run.alloc_deque([]), run.alloc_deque([]))
    if run.choose("restore:size_mismatch", 2) == 1:
        raise PyExc(dom.make_exc("ValueError", ("The size of correction vector does not match the size of x",)))
    ax = run.fresh("restored_X", z3.ArraySort(I, Vec))
    ag = run.fresh("restored_G", z3.ArraySort(I, Vec))
    n = z3.If(rows <= zint(maxcor) + 1, rows, zint(maxcor) + 1)
    X = run.alloc_deque(SymDeque(ax, z3.IntVal(0), n))
    G = run.alloc_deque(SymDeque(ag, z3.IntVal(0), n))
    run.ghost["restored"] = (ax, ag, n)
    # PREMISE (well-formed checkpoint, exact arithmetic): the restored pairs are the previous run's pairs, which
    # satisfied the curvature condition when they were stored
    run.assume_q(dq_pairs_forall(run, X, G, lambda a, c, d, e: curv(a, c, d, e, run.ghost["ctx"].reals["eps_SY"])))
    return (X, G)


def c_form_invMfactors(it, clo, b, site):
    """opaque in the UF domain: two fresh arrays, a deterministic function of (theta, STS, L, D)."""
    dom = it.dom
    terms = [zreal(b["theta"])] + [vec_of(dom, b[k]) for k in ("STS", "L", "D")]
    return (dom.run.alloc(_ufv("invMf0", terms)), dom.run.alloc(_ufv("invMf1", terms)))


def c_get_cauchy_point(it, clo, b, site):
    """ensures (unit CAUCHY, fixed shapes): returns two fresh arrays, deterministic in the inputs' values; the
    Cauchy point is inside the box; arguments are not written."""
    run, dom = it.dom.run, it.dom
    ctx = run.ghost["ctx"]
    terms = [vec_of(dom, b[k]) for k in ("x", "grad", "lb", "ub")] + mats_term(dom, b["mats"])
    run.oblige("cauchy.get_cauchy_point::call::requires::inbox", inbox(terms[0], terms[2], terms[3]),
               props=("REQ", "C02"))
    xcp = run.alloc(_ufv("CP_x", terms))
    cc = run.alloc(_ufv("CP_c", terms))
    # NOTE: "x_cp inside the box" is proved in unit CAUCHY in EXACT arithmetic only; it is deliberately NOT assumed
    # here, so that no floating-point evaluation point may rest on it (trial points are projected by np.clip).
    return (xcp, cc)


def c_get_freev(it, clo, b, site):
    run, dom = it.dom.run, it.dom
    terms = [vec_of(dom, b[k]) for k in ("x_cp", "lb", "ub")]
    return (run.alloc(_ufv("FREEV", terms)), run.alloc(_ufv("FREE_Z", terms)), run.alloc(_ufv("FREE_A", terms)))


def c_subspace_minimization(it, clo, b, site):
    """ensures (unit SUBSPACE, fixed shapes): xbar inside the box; returns xc itself when no variable is free,
    a fresh array otherwise; arguments are not written."""
    run, dom = it.dom.run, it.dom
    terms = [vec_of(dom, b[k]) for k in ("x", "xc", "free_vars", "c", "grad", "lb", "ub")] + mats_term(dom, b["mats"])
    if run.choose("subspace:none_free", 2) == 1:
        return b["xc"]
    xbar = run.alloc(_ufv("XBAR", terms))
    # "xbar inside the box" holds in exact arithmetic only (unit SUBSPACE): not assumed (see c_get_cauchy_point)
    return xbar


def ls_effect_on_sf(run, sf, ctx, max_iter):
    """Abstract effect of line_search on the ScalarFunction: cache fields arbitrary under Inv(sf); counters advance;
    with a callable gradient at most max(max_iter,0) objective evaluations (unit LS proves this bound)."""
    n_old, g_old = zint(sf.f["nfev"]), zint(sf.f["ngev"])
    cf_old, cg_old = count(run, "fun"), count(run, "jac")
    fd_old, st_old = zint(run.ghost.get("fd_calls", 0)), zint(run.ghost.get("stencil", 0))
    scaling = sf.f["scaling_factor"]
    base_f, base_g = sf_havoc(run, sf, ctx.sfcfg)
    sf.f["scaling_factor"] = scaling
    dn = zint(sf.f["nfev"]) - n_old
    run.assume(dn >= 0)
    run.assume(zint(sf.f["ngev"]) - g_old >= 0)
    run.assume(count(run, "fun") - cf_old == dn)
    if ctx.cfg.jac == "callable":
        run.assume(count(run, "jac") - cg_old == zint(sf.f["ngev"]) - g_old)
        run.assume(dn <= z3.If(zint(max_iter) >= 0, zint(max_iter), 0))
        run.assume(zint(run.ghost["fd_calls"]) == fd_old)
    else:
        run.assume(zint(run.ghost["fd_calls"]) - fd_old == zint(sf.f["ngev"]) - g_old)
        run.assume(count(run, "jac") == cg_old)
    for lab, f in sf_inv(run, sf, ctx.sfcfg, ctx.base_f, ctx.base_g):
        if lab in ("f_current", "g_current"):
            run.assume(f)


def c_line_search(it, clo, b, site):
    """CONTRACT of linesearch.line_search as used by main (proved against the real body in unit LS):
    requires  lb <= x0 <= ub, max_iter >= 1, Inv(sf)
    ensures   result is None, or 0 < result and Fs(trial(result)) < f0 and lb <= trial(result) <= ub,
              trial(a) = clip(x0 + a*d, lb, ub);
              every point evaluated lies inside the box; sf: Inv preserved, counters advance, with a callable
              gradient nfev grows by at most max_iter; user exceptions propagate unchanged."""
    run, dom = it.dom.run, it.dom
    ctx = run.ghost["ctx"]
    x0v, dv = vec_of(dom, b["x0"]), vec_of(dom, b["d"])
    lbv, ubv = vec_of(dom, b["lb"]), vec_of(dom, b["ub"])
    run.oblige("linesearch.line_search::call::requires::inbox_x0", inbox(x0v, lbv, ubv), props=("REQ", "C02", "C11"))
    run.oblige("linesearch.line_search::call::requires::max_iter_ge_1", zint(b["max_iter"]) >= 1,
               props=("REQ", "C04", "SAFE"))
    run.oblige("linesearch.line_search::call::requires::sf_is_callers", b["sf"] is ctx.sf, props=("REQ",),
               backend="structural")
    # C12: the line-search constants and caps reach the line search unmodified
    kwa = ctx.kwargs
    for nm, par in (("ftol", "ftol_linesearch"), ("gtol", "gtol_linesearch"), ("xtol", "xtol_linesearch"),
                    ("max_steplength_user", "max_steplength")):
        run.oblige(f"main.minimize_lbfgsb::dataflow::{par}_reaches_line_search_unmodified",
                   b[nm] is kwa[par] or (isinstance(b[nm], Sym) and isinstance(kwa[par], Sym) and z3.eq(b[nm].e, kwa[par].e)),
                   props=("C12",), backend="structural")
    sf = b["sf"]
    ls_effect_on_sf(run, sf, ctx, b["max_iter"])
    if dom.user_may_raise and run.choose("line_search:user_raises", 2) == 1:
        from pyvc.sym import ExcV
        exc = ExcV(None, (), tag=("user", "fun|jac (inside line_search)", run.site, "k"))
        run.ghost.setdefault("user_excs", []).append(exc)
        raise PyExc(exc)
    if run.choose("line_search:none", 2) == 1:
        return None
    stp = run.fresh("steplength", R)
    run.assume(stp > 0)
    tp = trial_point(x0v, dv, stp, lbv, ubv)
    if ctx.cfg.update is False:
        run.assume(Fs(tp, sf.f["scaling_factor"]) < zreal(b["f0"]))
    run.assume(inbox(tp, lbv, ubv))
    run.ghost["ls_last"] = (stp, tp)
    return Sym(stp)


def c_make_wolfe(it, clo, b, site):
    """CONTRACT of bfgsmats.make_X_and_G_respect_strong_wolfe (proved in unit BFGS): returns two fresh deques of
    equal length 1..len(X); the newest pair is retained; consecutive retained pairs satisfy the curvature
    condition; inputs are not written."""
    run, dom = it.dom.run, it.dom
    X, G, eps = b["X"], b["G"], b["eps"]
    n = dq_len(run, X)
    run.oblige("bfgsmats.make_X_and_G_respect_strong_wolfe::call::requires::nonempty",
               z3.And(n >= 1, dq_len(run, G) == n), props=("REQ", "C13"))
    ax = run.fresh("wolfe_X", z3.ArraySort(I, Vec))
    ag = run.fresh("wolfe_G", z3.ArraySort(I, Vec))
    m = run.fresh("wolfe_len", I)
    run.assume(z3.And(m >= 1, m <= n))
    nX = run.alloc_deque(SymDeque(ax, z3.IntVal(0), m))
    nG = run.alloc_deque(SymDeque(ag, z3.IntVal(0), m))
    run.assume(z3.Select(ax, m - 1) == dq_last(run, X))
    run.assume(z3.Select(ag, m - 1) == dq_last(run, G))
    run.assume_q(dq_pairs_forall(run, nX, nG, lambda a, c, d, e: curv(a, c, d, e, eps)))
    run.ghost["wolfe_filtered"] = True
    return (nX, nG)


def install_callee_contracts(it):
    for q in ("base.display_start", "base.display_iter", "cauchy.display_start_point"):
        it.contracts[q] = c_display
    it.contracts["base.display_results"] = c_display_results
    it.contracts["main.initialize_X_and_G"] = c_initialize_X_and_G
    it.contracts["bfgsmats.form_invMfactors"] = c_form_invMfactors
    it.contracts["cauchy.get_cauchy_point"] = c_get_cauchy_point
    it.contracts["subspacemin.get_freev"] = c_get_freev
    it.contracts["subspacemin.subspace_minimization"] = c_subspace_minimization
    it.contracts["linesearch.line_search"] = c_line_search
    it.contracts["bfgsmats.make_X_and_G_respect_strong_wolfe"] = c_make_wolfe


CALLEE_CONTRACTS_USED = [
    "base.display_start / display_iter / display_results, cauchy.display_start_point: no effect on program state "
    "(unit FLOW)",
    "main.initialize_X_and_G: restore contract (unit RESTORE, fixed shapes)",
    "bfgsmats.form_invMfactors: pure function of its arguments (opaque in the UF domain)",
    "cauchy.get_cauchy_point: fresh results inside the box, arguments untouched (unit CAUCHY, fixed shapes)",
    "subspacemin.get_freev / subspace_minimization: fresh results (or xc itself), inside the box (unit SUBSPACE)",
    "linesearch.line_search: contract proved in unit LS",
    "bfgsmats.make_X_and_G_respect_strong_wolfe: contract proved in unit BFGS",
]
