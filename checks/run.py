#!/usr/bin/env python3
"""Entry point of every registered check:  python3-vt checks/run.py <Cxx> [--tier quick|thorough] [--replay FILE]

Re-parses /repo/lbfgsb (or $LBFGSB_REPO) on every run, generates the property's obligations from the current
source, discharges them, runs the soundness guards, writes evidence/<id>.json, prints KNOWN-FINDING / VIOLATION
lines and exits 0 / 1 / 2 (undecided) / 3 (checker error).
"""
import argparse
import importlib
import os
import sys
import traceback

sys.path.insert(0, os.path.dirname(os.path.dirname(os.path.abspath(__file__))))


def replay(pid, mod, path):
    """Re-run the native side of a recorded violation against the current tree: prints the failed obligation, the
    solver's model and the native search result; exit 1 if a failing native input is (still) found, else 0."""
    import json

    class R:
        pass
    doc = json.load(open(path))
    r = R()
    r.name = doc.get("obligation") or doc.get("name", "")
    r.label = doc.get("unit_label") or doc.get("label", "")
    r.model = doc.get("model")
    r.info = doc.get("info")
    print(f"property {pid}: obligation {r.name} [{r.label}]")
    print("  site:", doc.get("site"), " solver:", doc.get("solver_output"))
    if doc.get("model"):
        print("  model:", json.dumps(doc["model"])[:800])
    if hasattr(mod, "native_replay"):
        res = mod.native_replay(r)
    else:
        from props._mainbased import native_replay_for
        res = native_replay_for(pid)(r)
    print("  native replay:", json.dumps(res, default=str)[:1500])
    return 1 if res and res.get("confirmed") else 0


def main():
    ap = argparse.ArgumentParser()
    ap.add_argument("pid")
    ap.add_argument("--tier", default=os.environ.get("VERIF_TIER", "quick"))
    ap.add_argument("--replay", default=None)
    a = ap.parse_args()
    seed = int(os.environ.get("VERIF_SEED", "0") or 0)
    if a.pid == "--selfcheck" or a.pid == "selfcheck":
        from checks import selfcheck
        sys.exit(selfcheck.main())
    try:
        mod = importlib.import_module("props." + a.pid.lower())
    except ModuleNotFoundError:
        print(f"no check registered for {a.pid}")
        sys.exit(3)
    try:
        if a.replay:
            sys.exit(replay(a.pid, mod, a.replay))
        sys.exit(mod.check(a.tier, seed))
    except SystemExit:
        raise
    except Exception:
        traceback.print_exc()
        print(f"[{a.pid}] checker crash (exit 3; not a verdict about the property)")
        sys.exit(3)


if __name__ == "__main__":
    main()
