#!/usr/bin/env python3
"""Entry point of every registered check:  python3-vt checks/run.py <Cxx> [--tier quick|thorough] [--replay FILE]

Re-parses /repo/lbfgsb (or $LBFGSB_REPO) on every run, generates the property's obligations from the current
source, discharges them, runs the soundness guards, writes evidence/<id>.json, prints KNOWN-FINDING / VIOLATION
lines and exits 0 / 1 / 2 (undecided) / 3 (checker error).
"""
import argparse
import importlib
import os
import sys
import traceback

sys.path.insert(0, os.path.dirname(os.path.dirname(os.path.abspath(__file__))))


def main():
    ap = argparse.ArgumentParser()
    ap.add_argument("pid")
    ap.add_argument("--tier", default=os.environ.get("VERIF_TIER", "quick"))
    ap.add_argument("--replay", default=None)
    a = ap.parse_args()
    seed = int(os.environ.get("VERIF_SEED", "0") or 0)
    if a.pid == "--selfcheck" or a.pid == "selfcheck":
        from checks import selfcheck
        sys.exit(selfcheck.main())
    try:
        mod = importlib.import_module("props." + a.pid.lower())
    except ModuleNotFoundError:
        print(f"no check registered for {a.pid}")
        sys.exit(3)
    try:
        if a.replay:
            sys.exit(mod.replay(a.replay))
        sys.exit(mod.check(a.tier, seed))
    except SystemExit:
        raise
    except Exception:
        traceback.print_exc()
        print(f"[{a.pid}] checker crash (exit 3; not a verdict about the property)")
        sys.exit(3)


if __name__ == "__main__":
    main()
