"""Shared plumbing of the registered checks: outcome, evidence, replay files, known findings, exit codes.

Exit codes: 0 property held on everything decided; 1 violation (VIOLATION line); 2 undecided obligation(s);
3 checker error (unsupported syntax, zero obligations, failed vacuity cover, failing conformance test).
"""
import json
import os
import re
import sys
import time
import hashlib

VERIF = os.path.dirname(os.path.dirname(os.path.abspath(__file__)))
REPO = os.environ.get("LBFGSB_REPO", "/repo")
NATIVE_PY = "/venv/bin/python"

TRUSTED_BASE = [
    "pyvc (this repository's ast->VC generator: /verif/pyvc) and its encoding of Python semantics: left-to-right "
    "evaluation, unbounded int, closures by reference, try/except/else, while/else, keyword-only/default arguments",
    "z3 4.x/5.1 (python3-vt) and cvc5 1.0.3 as decision procedures",
    "library models in /verif/pyvc/lib.py, /verif/pyvc/libreal.py (numpy/scipy/stdlib semantics; conformance-tested, "
    "not proved)",
    "A-NAN: no NaN/inf in x0, objective/gradient values, finite bounds' arithmetic (np.array_equal is value "
    "equality; comparisons are total)",
    "A-LOG: `if <pure test>: logger.info(...)` blocks and calls on `logger` have no effect on program state",
    "user callables are deterministic functions of the value of the point (fixed objective), do not mutate the "
    "arrays they are given or the arrays they returned",
]


class Outcome:
    def __init__(self, pid, tier, seed, level):
        self.pid, self.tier, self.seed, self.level = pid, tier, seed, level
        self.reports = []              # UnitReport
        self.selected = []             # Result objects that constitute the property
        self.supporting = []           # Results reported but not part of the decision
        self.errors = []
        self.assumptions = []
        self.trusted = list(TRUSTED_BASE)
        self.functions = set()
        self.extra = {}
        self.standin = None            # dict with bounded stand-in summary
        self.standin_failures = []     # list of dicts (what failed natively)
        self.t0 = time.time()
        self.explanation = ""
        self.labels = {}               # proved / proved_at_shape / bounded counts
        self.checker_cmd = ""

    def add_report(self, rep, select):
        self.reports.append(rep)
        self.errors.extend(rep.errors)
        self.functions |= rep.functions
        for r in rep.results:
            if select(r):
                self.selected.append(r)
        for lab, ok in rep.covers:
            if not ok:
                self.errors.append(f"vacuity: cover '{lab}' is unsatisfiable (contradictory requires/invariant)")


def load_known():
    p = os.path.join(VERIF, "known_findings.json")
    if not os.path.exists(p):
        return {"findings": [], "fixed": []}
    return json.load(open(p))


def match_finding(findings, pid, name, label, info=""):
    for f in findings:
        if f.get("property") != pid:
            continue
        if not re.search(f["obligation"], name):
            continue
        if f.get("label") and not re.search(f["label"], label or ""):
            continue
        if f.get("info") and not re.search(f["info"], info or ""):
            continue
        return f
    return None


def source_hashes():
    out = {}
    pdir = os.path.join(REPO, "lbfgsb")
    for fn in sorted(os.listdir(pdir)):
        if fn.endswith(".py"):
            out["lbfgsb/" + fn] = hashlib.sha256(open(os.path.join(pdir, fn), "rb").read()).hexdigest()[:16]
    return out


def scan_assumptions():
    """Mechanical scan: every `assume(` in contracts/ and units/ (assumptions the proofs rest on)."""
    found = []
    for d in ("contracts", "units", "pyvc"):
        dd = os.path.join(VERIF, d)
        for fn in sorted(os.listdir(dd)):
            if not fn.endswith(".py"):
                continue
            for i, line in enumerate(open(os.path.join(dd, fn)), 1):
                if re.search(r"\.assume\(", line) and not line.strip().startswith("#"):
                    found.append(f"{d}/{fn}:{i}")
    return found


def write_replay(pid, r, native=None, solver_output=None):
    d = os.path.join(VERIF, "replay", pid)
    os.makedirs(d, exist_ok=True)
    safe = re.sub(r"[^A-Za-z0-9_.\-]+", "_", r.name)[:120]
    h = hashlib.sha1((r.name + str(r.label) + str(r.path)).encode()).hexdigest()[:8]
    path = os.path.join(d, f"{safe}.{h}.json")
    doc = {"property": pid, "obligation": r.name, "unit_label": r.label, "site": r.site, "info": r.info,
           "decision_path": r.path, "backend": r.backend, "goal": r.goal, "model": r.model,
           "solver_output": solver_output or ("sat" if r.status == "refuted" else r.status),
           "native_replay": native, "source_sha256": source_hashes()}
    json.dump(doc, open(path, "w"), indent=1, default=str)
    return path


def run_guards(out):
    """Soundness guards run with every check: (1) the ast walker, executing the repository natively on concrete values,
    must agree bit for bit with the package; (2) the library models' axioms must hold on the real numpy/scipy."""
    import subprocess
    env = dict(os.environ, PYTHONPATH=REPO, OMP_NUM_THREADS="1", OPENBLAS_NUM_THREADS="1")
    g = {}
    for name, script, args in (("interpreter_crosscheck", "crosscheck.py", []),
                               ("library_model_conformance", "conformance.py", [str(out.seed)])):
        try:
            p = subprocess.run([NATIVE_PY, "-W", "ignore", os.path.join(VERIF, "native", script)] + args,
                               capture_output=True, text=True, env=env, timeout=900)
            d = json.loads(p.stdout.strip().splitlines()[-1])
        except Exception as e:
            out.errors.append(f"guard {name} did not run: {type(e).__name__}: {e}")
            continue
        g[name] = d
        if d.get("disagreements") or d.get("errors") or d.get("failures"):
            out.errors.append(f"guard {name} failed: {json.dumps(d)[:600]}")
    out.extra["guards"] = g


def finish(out, native_replay=None):
    """Decide, print, write evidence, return exit code.
    native_replay(result) -> dict(confirmed: bool, ...) or None."""
    known = load_known()
    if "guards" not in out.extra:
        run_guards(out)
    wall = lambda: round(time.time() - out.t0, 2)   # noqa: E731
    sel = out.selected
    n = len(sel)
    proved = [r for r in sel if r.status == "proved"]
    refuted = [r for r in sel if r.status == "refuted"]
    unknown = [r for r in sel if r.status not in ("proved", "refuted")]
    code = 0
    lines = []
    if n == 0 and out.standin is None and not out.errors:
        out.errors.append("zero obligations generated for this property (vacuous check)")
    # group refutations by obligation name + label (one violation line per distinct obligation)
    seen = set()
    violations = 0
    known_hits = set()
    suppressed = 0
    for r in refuted:
        key = re.sub(r"\[[^\]]*\]", "", r.name)
        if key in seen:
            continue
        f = match_finding(known["findings"], out.pid, r.name, r.label, r.info)
        if f is not None:
            if f["id"] not in known_hits:
                known_hits.add(f["id"])
                lines.append(f"KNOWN-FINDING: property={out.pid} {f['what']}")
            continue
        seen.add(key)
        if violations >= 12:
            suppressed += 1
            continue
        native = None
        if native_replay is not None:
            try:
                native = native_replay(r)
            except Exception as e:            # replay harness problems never hide the refutation
                native = {"confirmed": False, "error": f"{type(e).__name__}: {e}"}
        path = write_replay(out.pid, r, native)
        violations += 1
        suffix = "" if (native and native.get("confirmed")) else " no-failing-input-found"
        lines.append(f"VIOLATION property={out.pid} replay={path}{suffix}")
        lines.append(f"  obligation {r.name} [{r.label}] refuted at {r.site}: {r.info or r.goal[:200]}")
    if suppressed:
        lines.append(f"  ... and {suppressed} more distinct refuted obligations (see evidence)")
    for sf in out.standin_failures:
        f = match_finding(known["findings"], out.pid, sf["name"], sf.get("label", ""), sf.get("info", ""))
        if f is not None:
            if f["id"] not in known_hits:
                known_hits.add(f["id"])
                lines.append(f"KNOWN-FINDING: property={out.pid} {f['what']}")
            continue
        d = os.path.join(VERIF, "replay", out.pid)
        os.makedirs(d, exist_ok=True)
        path = os.path.join(d, re.sub(r"[^A-Za-z0-9_.\-]+", "_", sf["name"])[:100] + ".standin.json")
        json.dump(sf, open(path, "w"), indent=1, default=str)
        violations += 1
        lines.append(f"VIOLATION property={out.pid} replay={path}")
        lines.append(f"  bounded stand-in clause {sf['name']} failed natively: {sf.get('info', '')[:300]}")
    # every listed finding of this property is re-exercised on its pinned input on every run: KNOWN-FINDING is printed
    # while it still fails on this tree (and no longer once it has been repaired)
    pinned = {}
    for f in known["findings"]:
        if f.get("property") != out.pid or not f.get("repro") or f["id"] in known_hits:
            continue
        try:
            import subprocess
            env = dict(os.environ, PYTHONPATH=REPO, OMP_NUM_THREADS="1", OPENBLAS_NUM_THREADS="1")
            pr = subprocess.run([NATIVE_PY, "-W", "ignore", os.path.join(VERIF, f["repro"])], capture_output=True,
                                text=True, env=env, timeout=600)
            pinned[f["id"]] = {"exit": pr.returncode, "output": (pr.stdout + pr.stderr).strip()[-300:]}
            if pr.returncode == 1:
                known_hits.add(f["id"])
                lines.append(f"KNOWN-FINDING: property={out.pid} {f['what']}")
        except Exception as e:      # noqa: BLE001
            pinned[f["id"]] = {"exit": None, "output": f"{type(e).__name__}: {e}"}
    if pinned:
        out.extra["known_findings_pinned_reproduction"] = pinned
    if violations:
        code = 1
    elif out.errors:
        code = 3
    elif unknown:
        code = 2
    by_backend = {}
    for r in sel:
        b = by_backend.setdefault(r.backend, {"n": 0, "time_s": 0.0})
        b["n"] += 1
        b["time_s"] = round(b["time_s"] + r.time, 3)
    samples = []
    for r in sel:
        if r.smt2 and len(samples) < 3:
            samples.append({"obligation": r.name, "unit": r.label, "verdict": r.status, "backend": r.backend,
                            "smt2": r.smt2[:1800]})
    if not samples:
        for r in sel[:3]:
            samples.append({"obligation": r.name, "unit": r.label, "verdict": r.status, "backend": r.backend,
                            "goal": r.goal[:300]})
    names = sorted({r.name for r in sel})
    cov = {
        "obligations": n,
        "discharged": len(proved),
        "refuted": len(refuted),
        "undecided": len(unknown),
        "distinct_obligation_names": len(names),
        "paths": sum(rp.paths for rp in out.reports),
        "checker_cmd": out.checker_cmd,
        "trusted_base": out.trusted,
        "functions_under_contract": sorted(out.functions),
        "by_backend": by_backend,
        "labels": out.labels,
        "samples": samples,
        "obligation_names": names[:400],
        "vacuity_covers": {"checked": sum(len(rp.covers) for rp in out.reports),
                           "failed": sum(1 for rp in out.reports for _, ok in rp.covers if not ok)},
        "unchecked_assume_sites": scan_assumptions(),
        "source_sha256": source_hashes(),
        "explanation": out.explanation,
        "known_findings_reported": sorted(known_hits),
        "checker_errors": out.errors[:20],
    }
    cov.update(out.extra)
    if out.standin is not None:
        cov["bounded_standin"] = out.standin
        cov["evaluations"] = out.standin.get("evaluations", 0)
        cov["distinct_nontrivial"] = out.standin.get("distinct_nontrivial", 0)
        cov["rule"] = out.standin.get("rule", "")
        if out.level in ("exploration",):
            cov["samples"] = out.standin.get("samples", [])[:5] or samples
    ev = {"property_id": out.pid, "tier": out.tier, "seed": out.seed, "level": out.level, "coverage": cov,
          "assumptions": out.assumptions, "wall_s": wall(), "violations": violations, "exit_code": code}
    os.makedirs(os.path.join(VERIF, "evidence"), exist_ok=True)
    json.dump(ev, open(os.path.join(VERIF, "evidence", out.pid + ".json"), "w"), indent=1, default=str)
    for ln in lines:
        print(ln)
    print(f"[{out.pid}] tier={out.tier} obligations={n} discharged={len(proved)} refuted={len(refuted)} "
          f"undecided={len(unknown)} paths={cov['paths']} errors={len(out.errors)} wall={wall()}s exit={code}")
    for e in out.errors[:8]:
        print("  checker-error:", e[:600])
    for r in unknown[:8]:
        print("  undecided:", r.name, r.label)
    return code
