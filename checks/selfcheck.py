"""setup_cmd: offline self-test of the tooling the checks rely on (no compilation, nothing fetched)."""
import os
import subprocess
import sys


def main():
    ok = True
    try:
        import z3
        s = z3.Solver()
        x = z3.Real("x")
        s.add(x * x < 0)
        assert s.check() == z3.unsat
        s = z3.Solver()
        s.add(x * x == 2)
        assert s.check() == z3.sat
        print("z3", z3.get_version_string(), "ok")
    except Exception as e:
        print("z3 FAILED", e)
        ok = False
    try:
        import sympy
        assert sympy.simplify(sympy.diff(sympy.sin(sympy.Symbol("x")), sympy.Symbol("x")) - sympy.cos(sympy.Symbol("x"))) == 0
        print("sympy", sympy.__version__, "ok")
    except Exception as e:
        print("sympy FAILED", e)
        ok = False
    try:
        r = subprocess.run(["/usr/bin/cvc5", "--version"], capture_output=True, text=True, timeout=30)
        print(r.stdout.splitlines()[0])
    except Exception as e:
        print("cvc5 FAILED", e)
        ok = False
    try:
        r = subprocess.run(["/venv/bin/python", "-c", "import lbfgsb, numpy, scipy; print('native', numpy.__version__, scipy.__version__)"],
                           capture_output=True, text=True, timeout=120, env=dict(os.environ, PYTHONPATH="/repo"))
        print(r.stdout.strip() or r.stderr[-300:])
        ok = ok and r.returncode == 0
    except Exception as e:
        print("native python FAILED", e)
        ok = False
    try:
        sys.path.insert(0, os.path.dirname(os.path.dirname(os.path.abspath(__file__))))
        from pyvc.harness import program
        p = program()
        print("parsed", len(p.modules), "repository modules")
    except Exception as e:
        print("pyvc FAILED", e)
        ok = False
    return 0 if ok else 1


if __name__ == "__main__":
    sys.exit(main())
